//! C10 – scan runs arms for the leftmost match, earlier arm first, and always advances.
//! Oracle: the specified matching sequence computed with the regex crate, once on absolute
//! offsets and once on the remaining text; cases where the two readings differ are counted as
//! ambiguous and skipped.  Observation: each arm block creates a node recording arm and `$k`.

use crate::gen::print::escape_string;
use crate::model::value::*;
use crate::oracle::exec::{self, ExecOpts, Loaded, Real};
use crate::oracle::tree::{parse_python, TreeInfo};
use crate::util::{hash_str, mix, Out, Rng};
use crate::{Prop, RunCfg, Tier};
use regex::Regex;
use serde_json::json;
use std::collections::BTreeMap;

pub struct C10;

const ALPHA: &[&str] = &["a", "b", "/", ".", "é", "😀", "a", "b", " ", "\n"];

fn gen_regex(rng: &mut Rng, depth: usize) -> String {
    let atom = |rng: &mut Rng| -> String {
        match rng.below(12) {
            0 | 1 | 2 => (*rng.pick(&["a", "b", "/", "é", "😀"])).to_string(),
            3 => "\\.".into(),
            4 => ".".into(),
            5 => "[ab]".into(),
            6 => "[^/]".into(),
            7 => "\\w".into(),
            8 => "[a-z]".into(),
            9 => "\\s".into(),
            10 => "[é😀]".into(),
            _ => "ab".into(),
        }
    };
    let mut s = String::new();
    let n = rng.range(1, 3);
    for _ in 0..n {
        let piece = if depth < 2 && rng.chance(1, 3) {
            let mut inner = gen_regex(rng, depth + 1);
            // an end anchor inside a group / a non-final alternative needs the text after the match
            if rng.chance(1, 5) {
                inner.push('$');
            }
            if rng.chance(1, 3) {
                format!("({})?", inner)
            } else if rng.chance(1, 4) {
                format!("(?:{})", inner)
            } else {
                format!("({})", inner)
            }
        } else if depth < 2 && rng.chance(1, 6) {
            if rng.chance(1, 3) {
                format!("({}$)|({})", atom(rng), atom(rng))
            } else {
                format!("({}|{})", atom(rng), atom(rng))
            }
        } else {
            atom(rng)
        };
        s.push_str(&piece);
        match rng.below(10) {
            0 => s.push('+'),
            1 => s.push('*'),
            2 => s.push('?'),
            3 => s.push_str("{1,2}"),
            _ => {}
        }
    }
    if depth == 0 {
        match rng.below(14) {
            0 => s.push('$'),
            1 => s = format!("^{}", s),
            2 => s = format!("\\b{}", s),
            3 => s = format!("{}\\b", s),
            4 => s = "\\b".into(),
            _ => {}
        }
    }
    s
}

fn gen_subject(rng: &mut Rng) -> String {
    let n = rng.below(25);
    (0..n).map(|_| *rng.pick(ALPHA)).collect()
}

#[derive(Clone, Debug, PartialEq, Eq)]
struct Step {
    level: u32,
    arm: u32,
    groups: Vec<String>,
}

#[derive(Clone, Debug, PartialEq, Eq)]
enum Expect {
    /// complete sequence
    Done(Vec<Step>),
    /// an empty match was selected after this prefix: an error is required
    MustFail(Vec<Step>),
    /// a non-selected arm matched emptily after this prefix: error or continuation both fine
    MayFail(Vec<Step>),
}

struct ScanSpec {
    regexes: Vec<String>,
    /// nested scan inside arm i: (group index it scans, spec)
    nested: Vec<Option<(usize, Box<ScanSpec>)>>,
    /// arms with an empty block: they only consume the text they match
    silent: Vec<bool>,
}

fn simulate(spec: &ScanSpec, res: &[Vec<Regex>], level: u32, subject: &str, absolute: bool, depth_index: &mut usize, steps: &mut Vec<Step>) -> Result<(), Expect> {
    let my = *depth_index;
    let regexes = &res[my];
    let mut pos = 0usize;
    while pos < subject.len() {
        let mut best: Option<(usize, usize, regex::Captures)> = None;
        let mut other_empty = false;
        for (ai, re) in regexes.iter().enumerate() {
            let caps = if absolute { re.captures_at(subject, pos) } else { re.captures(&subject[pos..]) };
            if let Some(c) = caps {
                let m = c.get(0).unwrap();
                let (ms, me) = if absolute { (m.start(), m.end()) } else { (m.start() + pos, m.end() + pos) };
                let empty = ms == me;
                let better = match &best {
                    None => true,
                    Some((bs, _, _)) => ms < *bs,
                };
                if better {
                    best = Some((ms, ai, c));
                }
                if empty {
                    other_empty = true;
                }
            }
        }
        let (_, ai, caps) = match best {
            None => return Ok(()),
            Some(b) => b,
        };
        let m0 = caps.get(0).unwrap();
        let (ms, me) = if absolute { (m0.start(), m0.end()) } else { (m0.start() + pos, m0.end() + pos) };
        if ms == me {
            return Err(Expect::MustFail(steps.clone()));
        }
        if other_empty {
            return Err(Expect::MayFail(steps.clone()));
        }
        let groups: Vec<String> = caps.iter().map(|g| g.map(|m| m.as_str().to_string()).unwrap_or_default()).collect();
        if !spec.silent[ai] {
            steps.push(Step { level, arm: ai as u32, groups: groups.clone() });
        }
        if let Some((gi, inner)) = &spec.nested[ai] {
            let mut di = nested_index(spec, my, ai);
            let sub = groups.get(*gi).cloned().unwrap_or_default();
            simulate(inner, res, level + 1, &sub, absolute, &mut di, steps)?;
        }
        pos = me;
    }
    Ok(())
}

/// index into the flattened regex table of the nested scan in arm `ai` of the scan at `my`
fn nested_index(spec: &ScanSpec, my: usize, ai: usize) -> usize {
    // flatten order: a scan, then the nested scans of its arms in arm order (preorder)
    let mut idx = my + 1;
    for k in 0..ai {
        if let Some((_, inner)) = &spec.nested[k] {
            idx += count(inner);
        }
    }
    idx
}

fn count(spec: &ScanSpec) -> usize {
    1 + spec.nested.iter().flatten().map(|(_, s)| count(s)).sum::<usize>()
}

fn flatten(spec: &ScanSpec, out: &mut Vec<Vec<Regex>>) -> bool {
    let mut v = Vec::new();
    for r in &spec.regexes {
        match Regex::new(r) {
            Ok(re) => v.push(re),
            Err(_) => return false,
        }
    }
    out.push(v);
    for (_, inner) in spec.nested.iter().flatten() {
        if !flatten(inner, out) {
            return false;
        }
    }
    true
}

fn emit(spec: &ScanSpec, subject_expr: &str, level: u32, indent: usize, out: &mut String, counter: &mut usize) {
    let pad = "  ".repeat(indent);
    out.push_str(&format!("{}scan {} {{\n", pad, subject_expr));
    for (ai, r) in spec.regexes.iter().enumerate() {
        let re = Regex::new(r).unwrap();
        let groups = re.captures_len();
        *counter += 1;
        let n = format!("n{}", counter);
        if spec.silent[ai] {
            out.push_str(&format!("{}  {} {{\n{}  }}\n", pad, escape_string(r), pad));
            continue;
        }
        out.push_str(&format!("{}  {} {{\n", pad, escape_string(r)));
        out.push_str(&format!("{}    node {}\n", pad, n));
        let mut attrs = vec![format!("level = {}", level), format!("arm = {}", ai)];
        for g in 0..groups {
            attrs.push(format!("g{} = ${}", g, g));
        }
        out.push_str(&format!("{}    attr ({}) {}\n", pad, n, attrs.join(", ")));
        if let Some((gi, inner)) = &spec.nested[ai] {
            emit(inner, &format!("${}", gi), level + 1, indent + 2, out, counter);
            // the arm's own groups are still the arm's own after the nested scan
            let again: Vec<String> = (0..groups).map(|g| format!("again{} = ${}", g, g)).collect();
            out.push_str(&format!("{}    attr ({}) {}\n", pad, n, again.join(", ")));
        }
        out.push_str(&format!("{}  }}\n", pad));
    }
    out.push_str(&format!("{}}}\n", pad));
}

fn gen_spec(rng: &mut Rng, depth: usize) -> ScanSpec {
    if depth == 0 && rng.chance(1, 25) {
        // a table of 40-60 literal arms: dozens of candidates per round, many of them tied for
        // the earliest start, found at offsets that are not in arm order
        let n = rng.range(40, 60);
        let mut regexes = Vec::new();
        for _ in 0..n {
            let len = rng.range(1, 3);
            let lit: String = (0..len).map(|_| *rng.pick(&["a", "b", "/", ".", "é", " "])).collect();
            let r = if rng.chance(1, 4) { format!("({})", regex::escape(&lit)) } else { regex::escape(&lit) };
            regexes.push(r);
        }
        return ScanSpec { nested: regexes.iter().map(|_| None).collect(), silent: regexes.iter().map(|_| false).collect(), regexes };
    }
    let n = rng.range(1, 4);
    let mut regexes = Vec::new();
    let mut nested = Vec::new();
    let mut silent = Vec::new();
    for _ in 0..n {
        let mut r = gen_regex(rng, 0);
        let mut tries = 0;
        while Regex::new(&r).is_err() && tries < 5 {
            r = gen_regex(rng, 0);
            tries += 1;
        }
        if Regex::new(&r).is_err() {
            r = "a".into();
        }
        let groups = Regex::new(&r).unwrap().captures_len();
        let inner = if depth == 0 && rng.chance(1, 5) {
            Some((rng.below(groups), Box::new(gen_spec(rng, 1))))
        } else {
            None
        };
        silent.push(inner.is_none() && n > 1 && rng.chance(1, 5));
        regexes.push(r);
        nested.push(inner);
    }
    ScanSpec { regexes, nested, silent }
}

fn observe_steps(g: &OGraph) -> Result<Vec<Step>, String> {
    let mut out = Vec::new();
    for n in &g.nodes {
        let level = match n.attrs.get("level") {
            Some(MVal::Int(i)) => *i,
            other => return Err(format!("node without level: {:?}", other)),
        };
        let arm = match n.attrs.get("arm") {
            Some(MVal::Int(i)) => *i,
            other => return Err(format!("node without arm: {:?}", other)),
        };
        let mut groups = Vec::new();
        let mut k = 0;
        loop {
            match n.attrs.get(&format!("g{}", k)) {
                Some(MVal::Str(s)) => {
                    if let Some(again) = n.attrs.get(&format!("again{}", k)) {
                        if again != &MVal::Str(s.clone()) {
                            return Err(format!("${} read {:?} before the nested scan of arm {} and {:?} after it", k, s, arm, again));
                        }
                    }
                    groups.push(s.clone())
                }
                Some(other) => return Err(format!("group value is not a string: {:?}", other)),
                None => break,
            }
            k += 1;
        }
        out.push(Step { level, arm, groups });
    }
    Ok(out)
}

/// A generated scan program (global `subject`, one stanza on `(module)`) and a subject string; also
/// used by C02 for the strict/lazy differential on restart positions where `^`/`\b` can tell the
/// two readings of "starting after the text that was just matched" apart.
pub fn gen_scan_case(rng: &mut Rng) -> Option<(String, String)> {
    let spec = gen_spec(rng, 0);
    let subject = gen_subject(rng);
    let mut res = Vec::new();
    if !flatten(&spec, &mut res) {
        return None;
    }
    let mut text = String::from("global subject\n\n(module)\n{\n");
    let mut counter = 0;
    emit(&spec, "subject", 0, 1, &mut text, &mut counter);
    text.push_str("}\n");
    Some((text, subject))
}

impl Prop for C10 {
    fn id(&self) -> &'static str {
        "C10"
    }
    fn cases(&self, cfg: &RunCfg) -> usize {
        match cfg.tier {
            Tier::Quick => 2500,
            Tier::Thorough => 150_000,
        }
    }
    fn run_case(&self, _cfg: &RunCfg, _idx: usize, rng: &mut Rng, out: &mut Out) {
        let spec = gen_spec(rng, 0);
        let mut subject = gen_subject(rng);
        if spec.regexes.len() > 32 {
            // a subject long enough for most of the literal arms to occur somewhere in it
            let n = rng.range(80, 160);
            subject = (0..n).map(|_| *rng.pick(&["a", "b", "/", ".", "é", " "])).collect();
        }
        let mut res = Vec::new();
        if !flatten(&spec, &mut res) {
            out.inconclusive("harness: generated an invalid regex");
            return;
        }
        let mut text = String::from("global subject\n\n(module)\n{\n");
        let mut counter = 0;
        emit(&spec, "subject", 0, 1, &mut text, &mut counter);
        text.push_str("}\n");
        let case = || json!({"dsl": text, "subject": subject});
        if spec.regexes.len() > 32 {
            out.feat("scan_with_more_than_32_arms");
        }
        let any_nullable = res.iter().flatten().any(|r| r.is_match(""));
        // expected sequence under both readings
        let run = |absolute: bool| -> Expect {
            let mut steps = Vec::new();
            let mut di = 0;
            match simulate(&spec, &res, 0, &subject, absolute, &mut di, &mut steps) {
                Ok(()) => Expect::Done(steps),
                Err(e) => e,
            }
        };
        let rel = run(false);
        let abs = run(true);
        // look-around at restart positions (`^`, `\b`) can tell the two readings of "starting after
        // the text that was just matched" apart: then either reading is accepted, per mode
        let ambiguous = rel != abs;
        if ambiguous {
            out.feat("ambiguous_restart_semantics_either_reading_accepted");
        }
        let source = "pass";
        let tree = parse_python(source);
        let ti = TreeInfo::new(&tree);
        let file = match exec::load(&text) {
            Loaded::Ok(f) => f,
            Loaded::Err(e) => {
                out.eval();
                let dbg = format!("{:?}", e);
                if any_nullable && dbg.contains("NullableRegex") {
                    out.feat("nullable_rejected_at_load");
                    out.nontrivial(hash_str(&text));
                    return;
                }
                out.violation("C10:load-rejected", &format!("a scan without nullable regexes was rejected: {}", crate::util::trunc(&dbg, 200)), case());
                return;
            }
            Loaded::Panic(p) => {
                out.violation("C10:load-panic", &format!("{}: {}", p.location, p.message), case());
                return;
            }
        };
        if any_nullable {
            out.feat("nullable_accepted_at_load");
        }
        let mut globals = BTreeMap::new();
        globals.insert("subject".to_string(), MVal::Str(subject.clone()));
        let functions = super::common::stdlib();
        for lazy in [false, true] {
            let mut opts = ExecOpts::new(lazy);
            opts.poll_limit = 200_000;
            let rep = exec::execute(&file, &tree, source, &ti, &globals, &functions, &opts);
            out.eval();
            let mode = if lazy { "lazy" } else { "strict" };
            if rep.poll_limit_hit {
                out.violation(&format!("C10:no-termination:{}", mode), &format!("{} scan did not finish within 200000 polls (subject of {} bytes)", mode, subject.len()), case());
                return;
            }
            let observed = match &rep.real {
                Real::Panic(p) => {
                    out.violation(&format!("C10:panic:{}", mode), &format!("{}: {}", p.location, p.message), case());
                    return;
                }
                Real::Unreadable(s) => {
                    out.violation("C10:unreadable-graph", s, case());
                    return;
                }
                Real::Graph(g) => match observe_steps(g) {
                    Ok(s) => Ok(s),
                    Err(e) => {
                        out.violation(&format!("C10:bad-observation:{}", mode), &e, case());
                        return;
                    }
                },
                Real::Error(e, _) => Err(e.root.clone()),
            };
            let judge = |expect: &Expect| -> Result<&'static str, (String, String)> {
                match (expect, &observed) {
                    (Expect::Done(want), Ok(got)) => {
                        if want != got {
                            return Err((format!("C10:wrong-sequence:{}", mode), format!("{} scan ran {:?}, specified {:?}", mode, got, want)));
                        }
                        Ok("sequence_as_specified")
                    }
                    (Expect::Done(want), Err(root)) => Err((format!("C10:spurious-error:{}", mode), format!("{} scan failed with {} but the specified sequence {:?} has no empty match", mode, root, want))),
                    (Expect::MustFail(prefix), Ok(got)) => Err((format!("C10:empty-match-accepted:{}", mode), format!("{} scan selected an empty match after {:?} and still returned {:?}", mode, prefix, got))),
                    (Expect::MustFail(_), Err(_)) => Ok("empty_selected_match_rejected_at_runtime"),
                    (Expect::MayFail(_), Err(_)) => Ok("empty_other_arm_error"),
                    (Expect::MayFail(prefix), Ok(got)) => {
                        if got.len() < prefix.len() || &got[..prefix.len()] != prefix.as_slice() {
                            return Err((format!("C10:wrong-sequence:{}", mode), format!("{} scan ran {:?}, specified prefix {:?}", mode, got, prefix)));
                        }
                        Ok("empty_other_arm_continued")
                    }
                }
            };
            match (judge(&rel), if ambiguous { Some(judge(&abs)) } else { None }) {
                (Ok(f), _) => out.feat(f),
                (Err(_), Some(Ok(f))) => {
                    out.feat(f);
                    out.feat("absolute_offset_reading_observed");
                }
                (Err((sig, msg)), None) => {
                    out.violation(&sig, &msg, case());
                    return;
                }
                (Err((sig, msg)), Some(Err((_, msg2)))) => {
                    out.violation(&sig, &format!("{} (reading the remaining text); {} (reading absolute offsets)", msg, msg2), case());
                    return;
                }
            }
        }
        // evidence
        if let Expect::Done(steps) = &rel {
            out.feat_n("arm_runs", steps.len() as u64);
            if steps.iter().any(|s| s.level > 0) {
                out.feat("nested_scan_ran");
            }
            if steps.iter().any(|s| s.groups.iter().skip(1).any(|g| g.is_empty())) {
                out.feat("empty_or_unmatched_group");
            }
            if steps.iter().any(|s| s.arm > 0) {
                out.feat("later_arm_selected");
            }
            if steps.len() >= 2 {
                out.feat("several_iterations");
            }
            // tie between arms at the same start?
            if !steps.is_empty() {
                out.nontrivial(mix(&[hash_str(&text), hash_str(&subject)]));
            }
        }
        if !subject.is_ascii() {
            out.feat("non_ascii_subject");
        }
        if subject.is_empty() {
            out.feat("empty_subject");
        }
        if out.want_sample() {
            if let Expect::Done(steps) = &rel {
                if steps.len() >= 2 {
                    out.sample(json!({"dsl": text, "subject": subject, "sequence": steps.iter().map(|s| format!("{:?}", s)).collect::<Vec<_>>()}));
                }
            }
        }
    }
}
