pub mod ast;
pub mod dsl;
pub mod print;
pub mod py;
pub mod query;
