//! C15 – debug attributes are correct and do not otherwise change the outcome.
//! Differential plain-vs-debug per mode, plus content checks against the locations the layout
//! printer recorded and the full-match nodes the match oracle enumerates.

use super::common::*;
use crate::gen::ast::*;
use crate::gen::dsl::GenCfg;
use crate::model::interp::Outcome;
use crate::model::value::*;
use crate::oracle::exec::{self, ExecOpts, Loaded, Real};
use crate::oracle::iso::{isomorphic, Iso};
use crate::oracle::tree::{parse_python, TreeInfo};
use crate::util::{Out, Rng};
use crate::{Prop, RunCfg, Tier};
use serde_json::json;
use std::collections::{BTreeMap, BTreeSet, HashMap};

pub struct C15;

const LOC: &str = "dbg_location";
const VAR: &str = "dbg_variable";
const MAT: &str = "dbg_match_node";

fn loc_text(l: Loc) -> String {
    format!("line {} column {}", l.row + 1, l.col + 1)
}

/// The same comparison on a graph that already holds content (`execute_into`): two nodes handed
/// to the file as globals, optionally joined by an edge that already carries an attribute.
/// Removing the debug attributes must again give the graph of the plain run – in particular the
/// attributes the edge had before must still be there.
fn preseeded(rng: &mut Rng, out: &mut Out) {
    use crate::oracle::observe::observe_graph;
    use crate::util::catch;
    use tree_sitter_graph::graph::Graph;
    use tree_sitter_graph::{ExecutionConfig, Identifier, NoCancellation, Variables};
    let bodies = [
        "edge ga -> gb",
        "edge ga -> gb attr (ga -> gb) w = 1",
        "edge ga -> gb edge ga -> gb",
        "node n edge ga -> n edge ga -> gb attr (ga -> n) w = 2",
        "edge gb -> ga attr (gb -> ga) w = 3 edge ga -> gb",
        "node n attr (n) w = 1",
    ];
    let body = *rng.pick(&bodies);
    let text = format!("global ga\nglobal gb\n(module) {{ {} }}\n", body);
    let with_edge = rng.chance(3, 4);
    let with_attr = rng.chance(3, 4);
    let source = "pass\n";
    let tree = parse_python(source);
    let ti = TreeInfo::new(&tree);
    let file = match exec::load(&text) {
        Loaded::Ok(f) => f,
        _ => {
            out.inconclusive("harness: pre-seeded program rejected");
            return;
        }
    };
    let functions = stdlib();
    for lazy in [false, true] {
        let mode = if lazy { "lazy" } else { "strict" };
        let mut results = Vec::new();
        for debug in [false, true] {
            let r = catch(|| {
                let mut graph = Graph::new();
                let a = graph.add_graph_node();
                let b = graph.add_graph_node();
                let _ = graph[a].attributes.add(Identifier::from("name"), "a");
                if with_edge {
                    if let Ok(e) = graph[a].add_edge(b) {
                        if with_attr {
                            let _ = e.attributes.add(Identifier::from("kind"), "old");
                        }
                    }
                }
                let mut vars = Variables::new();
                let _ = vars.add(Identifier::from("ga"), a.into());
                let _ = vars.add(Identifier::from("gb"), b.into());
                let mut config = ExecutionConfig::new(&functions, &vars).lazy(lazy);
                if debug {
                    config = config.debug_attributes(Identifier::from(LOC), Identifier::from(VAR), Identifier::from(MAT));
                }
                let r = file.execute_into(&mut graph, &tree, source, &config, &NoCancellation);
                (r.is_ok(), observe_graph(&graph, &ti))
            });
            out.eval();
            results.push(r);
        }
        let case = json!({"dsl": text, "source": source, "mode": mode, "existing_edge": with_edge, "existing_edge_attribute": with_attr});
        match (&results[0], &results[1]) {
            (Ok((ok_p, Ok(gp))), Ok((ok_d, Ok(gd)))) => {
                if ok_p != ok_d {
                    out.violation(&format!("C15:preseeded-outcome-differs:{}", mode), &format!("execute_into on a non-empty graph: plain run ok={}, debug run ok={}", ok_p, ok_d), case);
                    return;
                }
                if !*ok_p {
                    out.feat(&format!("preseeded_both_fail:{}", mode));
                    continue;
                }
                let stripped = gd.without_attrs(&[LOC, VAR, MAT]);
                match isomorphic(gp, &stripped, 100_000) {
                    Iso::Same => out.feat(&format!("preseeded_graph_checked:{}", mode)),
                    Iso::Different(why) => {
                        out.violation(&format!("C15:preseeded-graph-differs:{}", mode), &format!("execute_into on a non-empty graph: removing the debug attributes does not give the plain graph: {}", why), case);
                        return;
                    }
                    Iso::Unknown => out.inconclusive("isomorphism budget exhausted"),
                }
            }
            (Err(p), _) | (_, Err(p)) => {
                out.violation(&format!("C15:panic:{}", mode), &format!("{}: {}", p.location, p.message), case);
                return;
            }
            _ => {
                out.violation("C15:unreadable-graph", "pre-seeded graph could not be read back", case);
                return;
            }
        }
    }
}

/// A caller-registered function that returns its first argument (no stdlib function returns a
/// syntax node, so this is the only way a *call* can be the scope of a scoped variable).
struct FirstArgument;
impl tree_sitter_graph::functions::Function for FirstArgument {
    fn call(&self, _graph: &mut tree_sitter_graph::graph::Graph, _source: &str, parameters: &mut dyn tree_sitter_graph::functions::Parameters) -> Result<tree_sitter_graph::graph::Value, tree_sitter_graph::ExecutionError> {
        let first = parameters.param()?;
        while parameters.param().is_ok() {}
        Ok(first)
    }
}

/// `node (zq-first @x "…").name`: the variable-name attribute holds the variable as written,
/// string arguments with their escapes.
fn call_scoped_variable(rng: &mut Rng, out: &mut Out) {
    use crate::oracle::observe::observe_graph;
    use crate::util::catch;
    use tree_sitter_graph::{ExecutionConfig, Identifier, NoCancellation, Variables};
    let arg = *rng.pick(&["plain", "with \"quotes\"", "back\\slash", "tab\there", "é ü", "\"", "a\\\"b", ""]);
    let name = *rng.pick(&["zq_name", "lit", "x-y", "nœud", "définition_1"]);
    // or: the scope is an optional / list-element capture that is present (written without its
    // quantifier, as everywhere in a block)
    let (written, text, source) = match rng.below(5) {
        3 => {
            // the scope is itself a scoped variable
            let w = format!("@x.zz_self.{}", name);
            (w.clone(), format!("(identifier) @x {{ let @x.zz_self = @x node {} attr ({}) seen = #true }}\n", w, w), "alpha\nbeta\n")
        }
        4 => {
            // ... three levels deep
            let w = format!("@x.zz_a.zz_b.{}", name);
            (w.clone(), format!("(identifier) @x {{ let @x.zz_a = @x let @x.zz_a.zz_b = @x node {} attr ({}) seen = #true }}\n", w, w), "alpha\nbeta\n")
        }
        0 => {
            let w = format!("@x.{}", name);
            (w.clone(), format!("(expression_statement (identifier)? @x) {{ if some @x {{ node {} attr ({}) seen = #true }} }}\n", w, w), "alpha\nbeta\n")
        }
        _ => {
            let w = format!("(zq-first @x {:?}).{}", arg, name);
            (w.clone(), format!("(identifier) @x {{ node {} attr ({}) seen = #true }}\n", w, w), "alpha\nbeta\n")
        }
    };
    let tree = parse_python(source);
    let ti = TreeInfo::new(&tree);
    let file = match exec::load(&text) {
        Loaded::Ok(f) => f,
        _ => {
            out.inconclusive("harness: call-scoped program rejected");
            return;
        }
    };
    let mut functions = stdlib();
    functions.add(Identifier::from("zq-first"), FirstArgument);
    let vars = Variables::new();
    for lazy in [false, true] {
        let mode = if lazy { "lazy" } else { "strict" };
        let r = catch(|| {
            let config = ExecutionConfig::new(&functions, &vars).lazy(lazy).debug_attributes(Identifier::from(LOC), Identifier::from(VAR), Identifier::from(MAT));
            file.execute(&tree, source, &config, &NoCancellation).map(|g| observe_graph(&g, &ti))
        });
        out.eval();
        let case = json!({"dsl": text, "source": source, "mode": mode});
        match r {
            Ok(Ok(Ok(g))) => {
                if g.nodes.len() != 2 {
                    out.violation(&format!("C15:call-scoped-variable:{}", mode), &format!("{} graph nodes, 2 identifiers", g.nodes.len()), case);
                    return;
                }
                for nd in &g.nodes {
                    match nd.attrs.get(VAR) {
                        Some(MVal::Str(s)) if *s == written => {}
                        other => {
                            out.violation(&format!("C15:wrong-variable-text:{}", mode), &format!("the variable is written {:?}, the attribute holds {:?}", written, other), case);
                            return;
                        }
                    }
                }
                out.feat(&format!("call_scoped_variable_checked:{}", mode));
            }
            Ok(Ok(Err(e))) => {
                out.violation("C15:unreadable-graph", &e, case);
                return;
            }
            Ok(Err(e)) => {
                out.violation(&format!("C15:call-scoped-variable:{}", mode), &format!("execution failed: {}", e), case);
                return;
            }
            Err(p) => {
                out.violation(&format!("C15:panic:{}", mode), &format!("{}: {}", p.location, p.message), case);
                return;
            }
        }
    }
}

/// Three captures on the root pattern node: tree-sitter then reports matches without a node for
/// the full-match capture the library appends. Whatever an execution makes of that, switching the
/// debug attributes on must not change whether it succeeds.
fn match_without_full_match_node(rng: &mut Rng, out: &mut Out) {
    let text = *rng.pick(&[
        "(identifier) @a @b @c { node n attr (n) x = @a, y = @b, z = @c }",
        "[(identifier) (integer)] @a @b @c { node n attr (n) k = (source-text @a), l = @b, m = @c }",
        "(identifier) @a @b @_c { node n attr (n) x = (source-text @a), y = @b }",
    ]);
    let source = "x = y + 1\n";
    let tree = parse_python(source);
    let ti = TreeInfo::new(&tree);
    let file = match exec::load(text) {
        Loaded::Ok(f) => f,
        _ => {
            out.inconclusive("harness: three-capture program rejected");
            return;
        }
    };
    let functions = stdlib();
    let globals = BTreeMap::new();
    for lazy in [false, true] {
        let mode = if lazy { "lazy" } else { "strict" };
        let plain = exec::execute(&file, &tree, source, &ti, &globals, &functions, &ExecOpts::new(lazy));
        let mut dopts = ExecOpts::new(lazy);
        dopts.debug_attrs = Some((LOC, VAR, MAT));
        let debug = exec::execute(&file, &tree, source, &ti, &globals, &functions, &dopts);
        out.evals(2);
        let class = |r: &Real| match r {
            Real::Graph(_) => "graph",
            Real::Error(..) => "error",
            Real::Panic(_) => "panic",
            Real::Unreadable(_) => "unreadable",
        };
        let case = json!({"dsl": text, "source": source, "mode": mode, "plain": plain.real.brief(), "debug": debug.real.brief()});
        if class(&plain.real) == "panic" || class(&debug.real) == "panic" {
            out.violation(&format!("C15:panic:{}", mode), "execution panicked", case);
            return;
        }
        if class(&plain.real) != class(&debug.real) {
            out.violation(&format!("C15:debug-attributes-change-the-outcome:{}", mode), &format!("without debug attributes: {}, with them: {}", class(&plain.real), class(&debug.real)), case);
            return;
        }
        out.feat(&format!("match_without_full_match_node:{}:{}", mode, class(&plain.real)));
    }
}

/// Stanzas whose full match consists of several sibling nodes (a quantified top-level pattern):
/// the match-node attribute must name one of those nodes, and both modes must name the same one.
fn multi_node_match(rng: &mut Rng, out: &mut Out) {
    let texts = [
        "(comment)+ @cs { node n attr (n) count = (length @cs) }",
        "((comment)+ @cs . (expression_statement) @stmt) { node n attr (n) stmt = (source-text @stmt) for c in @cs { node m attr (m) c = (source-text c) } }",
        "((comment) @first . (comment)+ @rest) { node n attr (n) f = (source-text @first), r = (length @rest) }",
    ];
    let text = *rng.pick(&texts);
    let n = rng.range(2, 5);
    let mut source = String::new();
    for i in 0..n {
        source.push_str(&format!("# comment {}\n", i));
    }
    source.push_str("x = 1\n# alone\ny = 2\n# p\n# q\nz\n");
    let tree = parse_python(&source);
    let ti = TreeInfo::new(&tree);
    let file = match exec::load(text) {
        Loaded::Ok(f) => f,
        _ => {
            out.inconclusive("harness: multi-node-match program rejected");
            return;
        }
    };
    let functions = stdlib();
    let globals = BTreeMap::new();
    let mut per_mode: Vec<Vec<MVal>> = Vec::new();
    for lazy in [false, true] {
        let mut dopts = ExecOpts::new(lazy);
        dopts.debug_attrs = Some((LOC, VAR, MAT));
        let rep = exec::execute(&file, &tree, &source, &ti, &globals, &functions, &dopts);
        out.eval();
        match &rep.real {
            Real::Graph(g) => {
                let mut v: Vec<MVal> = Vec::new();
                for nd in &g.nodes {
                    match nd.attrs.get(MAT) {
                        Some(MVal::Syn(i)) => {
                            if ti.nodes[*i].kind != "comment" {
                                out.violation("C15:wrong-match-node:multi-node-match", &format!("the match-node attribute names a {} node, the stanza matches comments", ti.nodes[*i].kind), json!({"dsl": text, "source": source}));
                                return;
                            }
                            v.push(MVal::Syn(*i));
                        }
                        other => {
                            out.violation("C15:missing-match-node:multi-node-match", &format!("a node created by a node statement carries {:?} as match node", other), json!({"dsl": text, "source": source}));
                            return;
                        }
                    }
                }
                v.sort();
                per_mode.push(v);
            }
            other => {
                // tree-sitter does not always report such matches with a node (D4/D5): an error
                // in both modes is accepted, a difference is not
                per_mode.push(vec![MVal::Str(format!("no graph: {}", other.brief().chars().take(20).collect::<String>()))]);
            }
        }
    }
    if per_mode[0] != per_mode[1] {
        out.violation("C15:match-node-differs-between-modes", &format!("strict names {:?}, lazy names {:?}", per_mode[0], per_mode[1]), json!({"dsl": text, "source": source}));
        return;
    }
    out.feat("multi_node_match_checked");
}

impl Prop for C15 {
    fn id(&self) -> &'static str {
        "C15"
    }
    fn cases(&self, cfg: &RunCfg) -> usize {
        match cfg.tier {
            Tier::Quick => 600,
            Tier::Thorough => 30_000,
        }
    }
    fn run_case(&self, cfg: &RunCfg, idx: usize, rng: &mut Rng, out: &mut Out) {
        if idx % 8 == 7 {
            for _ in 0..4 {
                preseeded(rng, out);
            }
            multi_node_match(rng, out);
            call_scoped_variable(rng, out);
            match_without_full_match_node(rng, out);
            return;
        }
        let mut gcfg = GenCfg::order_insensitive();
        gcfg.fault_pct = 10;
        gcfg.print = false;
        gcfg.forward_refs = rng.chance(1, 4);
        if cfg.tier == Tier::Thorough && gcfg.deepen(rng) {
            out.feat("deep_bounds(depth<=6,stanzas<=12)");
        }
        let case = build_case(rng, &gcfg, 35, 10, 8);
        let tree = parse_python(&case.source);
        let ti = TreeInfo::new(&tree);
        if ti.anomaly.is_some() {
            out.inconclusive("tree-sitter anomaly");
            return;
        }
        let prep = match prepare(&case.prog.file, &tree, &case.source, &ti) {
            Ok(p) => p,
            Err(e) => {
                out.inconclusive(&format!("oracle could not compile a pool query: {}", e));
                return;
            }
        };
        if prep.rootless > 0 || prep.shape_anomalies > 0 {
            out.inconclusive("match without root node / capture shape anomaly");
            return;
        }
        let file = match exec::load(&case.text) {
            Loaded::Ok(f) => f,
            _ => {
                out.feat("load_rejected");
                return;
            }
        };
        // statement tables from the harness AST
        let mut node_stmts: HashMap<usize, (String, String, usize)> = HashMap::new(); // id -> (var text, location text, stanza)
        let mut edge_locs: BTreeSet<String> = BTreeSet::new();
        let mut edge_stmt_loc: HashMap<usize, String> = HashMap::new();
        case.prog.file.walk_stmts(&mut |si, _d, s| match &s.kind {
            StmtKind::Node(v) => {
                node_stmts.insert(s.id, (v.display(), loc_text(v.loc()), si));
            }
            StmtKind::Edge(..) => {
                edge_locs.insert(loc_text(s.loc));
                edge_stmt_loc.insert(s.id, loc_text(s.loc));
            }
            _ => {}
        });
        let model = if gcfg.forward_refs { None } else { run_model(&case.prog.file, &ti, &case.source, &case.prog.globals, &prep.matches, None).ok() };
        let functions = stdlib();
        let cj = || case_json(&case.text, &case.source, &case.prog.globals);
        for lazy in [false, true] {
            let mode = if lazy { "lazy" } else { "strict" };
            let plain = exec::execute(&file, &tree, &case.source, &ti, &case.prog.globals, &functions, &ExecOpts::new(lazy));
            let mut dopts = ExecOpts::new(lazy);
            dopts.debug_attrs = Some((LOC, VAR, MAT));
            let debug = exec::execute(&file, &tree, &case.source, &ti, &case.prog.globals, &functions, &dopts);
            out.evals(2);
            let mut c = cj();
            c["plain"] = json!(plain.real.brief());
            c["debug"] = json!(debug.real.brief());
            c["mode"] = json!(mode);
            let (pg, dg) = match (&plain.real, &debug.real) {
                (Real::Panic(p), _) | (_, Real::Panic(p)) => {
                    out.violation(&format!("C15:panic:{}", mode), &format!("{}: {}", p.location, p.message), c);
                    return;
                }
                (Real::Unreadable(s), _) | (_, Real::Unreadable(s)) => {
                    out.violation("C15:unreadable-graph", s, c);
                    return;
                }
                (Real::Error(..), Real::Error(..)) => {
                    out.feat(&format!("both_fail:{}", mode));
                    continue;
                }
                (Real::Graph(_), Real::Error(e, _)) => {
                    out.violation(&format!("C15:debug-attributes-make-it-fail:{}:{}", mode, e.root), &format!("succeeds without debug attributes, fails with them: {}", crate::util::trunc(&e.display, 300)), c);
                    return;
                }
                (Real::Error(e, _), Real::Graph(_)) => {
                    out.violation(&format!("C15:debug-attributes-make-it-succeed:{}", mode), &format!("fails without debug attributes ({}), succeeds with them", crate::util::trunc(&e.display, 200)), c);
                    return;
                }
                (Real::Graph(a), Real::Graph(b)) => (a, b),
            };
            // neutrality
            let stripped = dg.without_attrs(&[LOC, VAR, MAT]);
            match isomorphic(pg, &stripped, 200_000) {
                Iso::Same => {}
                Iso::Different(why) => {
                    out.violation(&format!("C15:not-neutral:{}", mode), &format!("removing the three debug attributes does not give the plain graph: {}", why), c);
                    return;
                }
                Iso::Unknown => {
                    out.inconclusive("isomorphism budget exhausted");
                    continue;
                }
            }
            // content: nodes
            let mut seen_node_runs: Vec<(String, String, Option<usize>)> = Vec::new();
            for (i, n) in dg.nodes.iter().enumerate() {
                let has = [LOC, VAR, MAT].iter().filter(|k| n.attrs.contains_key(**k)).count();
                if has == 0 {
                    continue;
                }
                if has != 3 {
                    out.violation(&format!("C15:incomplete-node-debug-attributes:{}", mode), &format!("node {} carries {} of the three debug attributes", i, has), c);
                    return;
                }
                let (v, l, m) = (&n.attrs[VAR], &n.attrs[LOC], &n.attrs[MAT]);
                let (vs, ls) = match (v, l) {
                    (MVal::Str(a), MVal::Str(b)) => (a.clone(), b.clone()),
                    _ => {
                        out.violation(&format!("C15:bad-node-debug-attribute-type:{}", mode), &format!("node {}: {:?} {:?}", i, v, l), c);
                        return;
                    }
                };
                let ms = match m {
                    MVal::Syn(s) => Some(*s),
                    _ => {
                        out.violation(&format!("C15:bad-match-node-attribute:{}", mode), &format!("node {}: match node attribute is {:?}", i, m), c);
                        return;
                    }
                };
                // some node statement with this variable text and location, in a stanza that has
                // a match rooted at that syntax node
                let cands: Vec<&(String, String, usize)> = node_stmts.values().filter(|(vt, lt, _)| *vt == vs && *lt == ls).collect();
                if cands.is_empty() {
                    out.violation(&format!("C15:wrong-variable-or-location:{}", mode), &format!("node {} says variable {:?} at {:?}; no node statement is written there (node statements: {:?})", i, vs, ls, node_stmts.values().take(6).collect::<Vec<_>>()), c);
                    return;
                }
                let root_ok = cands.iter().any(|(_, _, si)| prep.matches[*si].iter().any(|mm| mm.root == ms));
                if !root_ok {
                    out.violation(&format!("C15:wrong-match-node:{}", mode), &format!("node {} (variable {}) names syntax node #{} which is not the full match of any match of its stanza", i, vs, ms.unwrap_or(0)), c);
                    return;
                }
                seen_node_runs.push((vs, ls, ms));
            }
            // exact multiset of node-statement runs when the model ran
            if let Some((Outcome::Graph(_), counters)) = &model {
                let mut want: Vec<(String, String, Option<usize>)> = counters
                    .node_stmt_runs
                    .iter()
                    .map(|(id, root, _)| {
                        let (v, l, _) = &node_stmts[id];
                        (v.clone(), l.clone(), *root)
                    })
                    .collect();
                want.sort();
                seen_node_runs.sort();
                if want != seen_node_runs {
                    out.violation(&format!("C15:node-debug-attributes-differ:{}", mode), &format!("{} nodes carry debug attributes, {} node statements ran; first expected {:?}, first seen {:?}", seen_node_runs.len(), want.len(), want.first(), seen_node_runs.first()), c);
                    return;
                }
                out.feat(&format!("node_runs_exact:{}", mode));
            }
            // content: edges
            let strict_exact = !lazy && matches!(&model, Some((Outcome::Graph(mg), _)) if *mg == *pg);
            for (i, n) in dg.nodes.iter().enumerate() {
                for (sink, ea) in &n.edges {
                    let l = match ea.get(LOC) {
                        Some(MVal::Str(s)) => s.clone(),
                        other => {
                            out.violation(&format!("C15:edge-without-location:{}", mode), &format!("edge {} -> {} has location attribute {:?}", i, sink, other), c);
                            return;
                        }
                    };
                    if ea.contains_key(VAR) || ea.contains_key(MAT) {
                        out.violation(&format!("C15:edge-with-node-attributes:{}", mode), &format!("edge {} -> {} carries node debug attributes", i, sink), c);
                        return;
                    }
                    let ok = if strict_exact {
                        // numbering equals the model's: the statements that named this very edge
                        let creators = model.as_ref().and_then(|(_, cn)| cn.edge_creators.get(&(i, *sink)));
                        match creators {
                            Some(ids) => ids.iter().any(|id| edge_stmt_loc.get(id) == Some(&l)),
                            None => false,
                        }
                    } else {
                        edge_locs.contains(&l)
                    };
                    if !ok {
                        out.violation(&format!("C15:wrong-edge-location:{}", mode), &format!("edge {} -> {} says {:?}, which is not the location of an edge statement that created it", i, sink, l), c);
                        return;
                    }
                    out.feat("edge_location_checked");
                    if strict_exact {
                        out.feat("edge_location_checked_exactly");
                    }
                }
            }
            out.feat(&format!("neutral:{}", mode));
        }
        if let Some((Outcome::Graph(_), counters)) = &model {
            if counters.edge_recreated > 0 {
                out.feat("edge_created_by_several_statements_or_matches");
            }
            if counters.edge_creators.values().any(|ids| {
                let s: BTreeSet<&usize> = ids.iter().collect();
                s.len() > 1
            }) {
                out.feat("edge_created_by_two_different_statements");
            }
            if !counters.node_stmt_runs.is_empty() {
                out.nontrivial(case_hash(&case.text, &case.source, &case.prog.globals));
            }
        }
        if case.wild {
            out.feat("layout:wild");
        }
        for f in &case.prog.features {
            out.feat(&format!("gen:{}", f));
        }
        if out.want_sample() && case.text.len() < 2000 {
            out.sample(cj());
        }
        let _ = BTreeMap::<String, String>::new();
    }
}
