//! The standard library, written from the documented contracts in `reference/functions.rs`
//! (shares no code with the crate).

use super::value::*;
use crate::oracle::tree::TreeInfo;

#[derive(Clone, Debug, PartialEq, Eq)]
pub enum FnErr {
    Undefined,
    Arity,
    Type,
    Failed(String),
}

pub const STDLIB_NAMES: &[&str] = &[
    "eq",
    "is-null",
    "named-child-index",
    "source-text",
    "start-row",
    "start-column",
    "end-row",
    "end-column",
    "node-type",
    "named-child-count",
    "node",
    "not",
    "and",
    "or",
    "plus",
    "format",
    "replace",
    "concat",
    "is-empty",
    "join",
    "length",
];

/// How values are rendered by `format` / `join` (and by the library's `Display`).
pub fn display_value(v: &MVal, ti: &TreeInfo) -> String {
    match v {
        MVal::Null => "#null".into(),
        MVal::Bool(true) => "#true".into(),
        MVal::Bool(false) => "#false".into(),
        MVal::Int(i) => format!("{}", i),
        MVal::Str(s) => s.clone(),
        MVal::List(xs) => format!(
            "[{}]",
            xs.iter()
                .map(|x| display_value(x, ti))
                .collect::<Vec<_>>()
                .join(", ")
        ),
        MVal::Set(xs) => format!(
            "{{{}}}",
            xs.iter()
                .map(|x| display_value(x, ti))
                .collect::<Vec<_>>()
                .join(", ")
        ),
        MVal::Syn(i) => {
            let n = &ti.nodes[*i];
            format!("[syntax node {} ({}, {})]", n.kind, n.start.0 + 1, n.start.1 + 1)
        }
        MVal::GNode(i) => format!("[graph node {}]", i),
    }
}

/// True if rendering `v` as text is fully determined by the documentation-level contract
/// (sets with more than one element have an unspecified order).
pub fn display_is_determined(v: &MVal) -> bool {
    match v {
        MVal::List(xs) => xs.iter().all(display_is_determined),
        MVal::Set(xs) => xs.len() <= 1 && xs.iter().all(display_is_determined),
        _ => true,
    }
}

fn same_type(a: &MVal, b: &MVal) -> bool {
    std::mem::discriminant(a) == std::mem::discriminant(b)
}

pub struct FnCtx<'a, 't> {
    pub ti: &'a TreeInfo<'t>,
    pub source: &'a str,
    pub graph: &'a mut OGraph,
}

pub fn call(name: &str, args: &[MVal], ctx: &mut FnCtx) -> Result<MVal, FnErr> {
    let syn = |v: &MVal| -> Result<usize, FnErr> {
        match v {
            MVal::Syn(i) => Ok(*i),
            _ => Err(FnErr::Type),
        }
    };
    let one = |args: &[MVal]| -> Result<(), FnErr> {
        if args.len() == 1 {
            Ok(())
        } else {
            Err(FnErr::Arity)
        }
    };
    match name {
        "eq" => {
            if args.len() != 2 {
                return Err(FnErr::Arity);
            }
            let (a, b) = (&args[0], &args[1]);
            if *a == MVal::Null || *b == MVal::Null {
                return Ok(MVal::Bool(*a == MVal::Null && *b == MVal::Null));
            }
            if !same_type(a, b) {
                return Err(FnErr::Failed("different types".into()));
            }
            Ok(MVal::Bool(a == b))
        }
        "is-null" => {
            one(args)?;
            Ok(MVal::Bool(args[0] == MVal::Null))
        }
        "node" => {
            if !args.is_empty() {
                return Err(FnErr::Arity);
            }
            Ok(MVal::GNode(ctx.graph.add_node()))
        }
        "not" => {
            one(args)?;
            match &args[0] {
                MVal::Bool(b) => Ok(MVal::Bool(!b)),
                _ => Err(FnErr::Type),
            }
        }
        "and" | "or" => {
            let mut acc = name == "and";
            for a in args {
                match a {
                    MVal::Bool(b) => {
                        if name == "and" {
                            acc = acc && *b
                        } else {
                            acc = acc || *b
                        }
                    }
                    _ => return Err(FnErr::Type),
                }
            }
            Ok(MVal::Bool(acc))
        }
        "plus" => {
            let mut acc: u64 = 0;
            for a in args {
                match a {
                    MVal::Int(i) => acc += *i as u64,
                    _ => return Err(FnErr::Type),
                }
            }
            if acc > u32::MAX as u64 {
                return Err(FnErr::Failed("overflow".into()));
            }
            Ok(MVal::Int(acc as u32))
        }
        "format" => {
            if args.is_empty() {
                return Err(FnErr::Arity);
            }
            let fmt = match &args[0] {
                MVal::Str(s) => s.clone(),
                _ => return Err(FnErr::Type),
            };
            let mut out = String::new();
            let mut next = 1usize;
            let cs: Vec<char> = fmt.chars().collect();
            let mut i = 0;
            while i < cs.len() {
                match cs[i] {
                    '{' => {
                        if i + 1 < cs.len() && cs[i + 1] == '{' {
                            out.push('{');
                            i += 2;
                        } else if i + 1 < cs.len() && cs[i + 1] == '}' {
                            if next >= args.len() {
                                return Err(FnErr::Arity);
                            }
                            out.push_str(&display_value(&args[next], ctx.ti));
                            next += 1;
                            i += 2;
                        } else {
                            return Err(FnErr::Failed("bad {".into()));
                        }
                    }
                    '}' => {
                        if i + 1 < cs.len() && cs[i + 1] == '}' {
                            out.push('}');
                            i += 2;
                        } else {
                            return Err(FnErr::Failed("bad }".into()));
                        }
                    }
                    c => {
                        out.push(c);
                        i += 1;
                    }
                }
            }
            if next != args.len() {
                return Err(FnErr::Arity);
            }
            Ok(MVal::Str(out))
        }
        "replace" => {
            if args.len() != 3 {
                return Err(FnErr::Arity);
            }
            match (&args[0], &args[1], &args[2]) {
                (MVal::Str(text), MVal::Str(pat), MVal::Str(rep)) => {
                    let re = regex::Regex::new(pat).map_err(|e| FnErr::Failed(e.to_string()))?;
                    Ok(MVal::Str(re.replace_all(text, rep.as_str()).to_string()))
                }
                _ => Err(FnErr::Type),
            }
        }
        "concat" => {
            let mut out = Vec::new();
            for a in args {
                match a {
                    MVal::List(xs) => out.extend(xs.iter().cloned()),
                    _ => return Err(FnErr::Type),
                }
            }
            Ok(MVal::List(out))
        }
        "is-empty" => {
            one(args)?;
            match &args[0] {
                MVal::List(xs) => Ok(MVal::Bool(xs.is_empty())),
                _ => Err(FnErr::Type),
            }
        }
        "length" => {
            one(args)?;
            match &args[0] {
                MVal::List(xs) => Ok(MVal::Int(xs.len() as u32)),
                _ => Err(FnErr::Type),
            }
        }
        "join" => {
            if args.is_empty() || args.len() > 2 {
                return Err(FnErr::Arity);
            }
            let xs = match &args[0] {
                MVal::List(xs) => xs,
                _ => return Err(FnErr::Type),
            };
            let sep = if args.len() == 2 {
                match &args[1] {
                    MVal::Str(s) => s.clone(),
                    _ => return Err(FnErr::Type),
                }
            } else {
                String::new()
            };
            Ok(MVal::Str(
                xs.iter()
                    .map(|x| display_value(x, ctx.ti))
                    .collect::<Vec<_>>()
                    .join(&sep),
            ))
        }
        "source-text" => {
            one(args)?;
            let i = syn(&args[0])?;
            Ok(MVal::Str(ctx.ti.text(i, ctx.source).to_string()))
        }
        "node-type" => {
            one(args)?;
            let i = syn(&args[0])?;
            Ok(MVal::Str(ctx.ti.nodes[i].kind.to_string()))
        }
        "start-row" => {
            one(args)?;
            Ok(MVal::Int(ctx.ti.nodes[syn(&args[0])?].start.0 as u32))
        }
        "start-column" => {
            one(args)?;
            Ok(MVal::Int(ctx.ti.nodes[syn(&args[0])?].start.1 as u32))
        }
        "end-row" => {
            one(args)?;
            Ok(MVal::Int(ctx.ti.nodes[syn(&args[0])?].end.0 as u32))
        }
        "end-column" => {
            one(args)?;
            Ok(MVal::Int(ctx.ti.nodes[syn(&args[0])?].end.1 as u32))
        }
        "named-child-count" => {
            one(args)?;
            let i = syn(&args[0])?;
            let n = ctx.ti.nodes[i]
                .children
                .iter()
                .filter(|c| ctx.ti.nodes[**c].named)
                .count();
            Ok(MVal::Int(n as u32))
        }
        "named-child-index" => {
            one(args)?;
            let i = syn(&args[0])?;
            let p = match ctx.ti.nodes[i].parent {
                Some(p) => p,
                None => return Err(FnErr::Failed("root".into())),
            };
            if !ctx.ti.nodes[i].named {
                return Err(FnErr::Failed("not a named child".into()));
            }
            let pos = ctx.ti.nodes[p]
                .children
                .iter()
                .filter(|c| ctx.ti.nodes[**c].named)
                .position(|c| *c == i)
                .ok_or(FnErr::Failed("not found".into()))?;
            Ok(MVal::Int(pos as u32))
        }
        _ => Err(FnErr::Undefined),
    }
}
