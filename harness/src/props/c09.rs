//! C09 – edges are a set, attributes are single-assignment, execute_into only adds.
//! Histories of 1-3 successive `execute_into` calls on one graph (either mode, different files
//! and trees, sometimes with debug attributes), earlier graph nodes passed back in as globals.
//! After each call: snapshot-vs-snapshot intactness of everything that existed, numbering of new
//! nodes after the old ones, and comparison with the reference model started from the old graph.

use super::common::*;
use crate::gen::ast::*;
use crate::gen::dsl::GenCfg;
use crate::gen::print::print_house;
use crate::gen::py;
use crate::model::interp::Outcome;
use crate::model::value::*;
use crate::oracle::exec::{self, analyse_error, Loaded};
use crate::oracle::iso::{isomorphic, Iso};
use crate::oracle::observe::observe_graph;
use crate::oracle::tree::{parse_python, TreeInfo};
use crate::util::{catch, hash_str, mix, Out, Rng};
use crate::{Prop, RunCfg, Tier};
use serde_json::json;
use std::collections::BTreeMap;
use tree_sitter_graph::graph::{Graph, Value};
use tree_sitter_graph::{ExecutionConfig, Identifier, NoCancellation, Variables};

pub struct C09;

const DBG: [&str; 3] = ["dbg_location", "dbg_variable", "dbg_match_node"];

fn a(name: &str, v: GExpr) -> GAttr {
    GAttr { name: name.into(), value: Some(v) }
}

/// a step program that works on nodes of earlier steps (globals prev0, prev1)
fn prev_program(rng: &mut Rng, step: usize, conflict: bool, cross: Option<(String, GExpr)>) -> GFile {
    let mut items = vec![
        Item::Global(GGlobal { name: "prev0".into(), quant: Quant::One, default: None, loc: Loc::default() }),
        Item::Global(GGlobal { name: "prev1".into(), quant: Quant::One, default: None, loc: Loc::default() }),
    ];
    let p0 = || GExpr::var("prev0");
    let p1 = || GExpr::var("prev1");
    let mut s: Vec<GStmt> = Vec::new();
    // one step in four binds no variable at all: everything it does, it does to nodes that came
    // in from outside
    let bare = rng.chance(1, 4);
    if !bare {
        s.push(stmt(StmtKind::Node(GVar::u("fresh"))));
        s.push(stmt(StmtKind::AttrNode(GExpr::var("fresh"), vec![a("step", GExpr::Int(step as u32)), a("kind", GExpr::str("fresh"))])));
    }
    // edges touching old nodes; prev0 -> prev1 may exist already (with attributes)
    s.push(stmt(StmtKind::Edge(p0(), p1())));
    if rng.chance(1, 2) {
        s.push(stmt(StmtKind::Edge(p0(), p1())));
    }
    if !bare {
        s.push(stmt(StmtKind::Edge(p0(), GExpr::var("fresh"))));
        s.push(stmt(StmtKind::Edge(GExpr::var("fresh"), p1())));
    } else {
        s.push(stmt(StmtKind::Edge(p1(), p0())));
        s.push(stmt(StmtKind::AttrEdge(p1(), p0(), vec![a(&format!("back{}", step), GExpr::Int(step as u32))])));
    }
    s.push(stmt(StmtKind::AttrEdge(p0(), p1(), vec![a(&format!("w{}", step), GExpr::Int(step as u32))])));
    // the same attribute again with an equal value is accepted
    if rng.chance(1, 2) {
        s.push(stmt(StmtKind::AttrEdge(p0(), p1(), vec![a(&format!("w{}", step), GExpr::Int(step as u32))])));
    }
    s.push(stmt(StmtKind::AttrNode(p0(), vec![a(&format!("seen{}", step), GExpr::True), a("constant", GExpr::str("same every time"))])));
    if rng.chance(1, 2) {
        // equal re-assignment of an attribute an earlier step may have set
        s.push(stmt(StmtKind::AttrNode(p1(), vec![a("constant", GExpr::str("same every time"))])));
    }
    if let Some((name, value)) = cross {
        // an attribute that only an EARLIER execution set on prev0: equal value is accepted,
        // a different one must fail
        s.push(stmt(StmtKind::AttrNode(p0(), vec![a(&name, value)])));
    }
    if conflict {
        // a different value for an attribute that exists: must fail, keeping neither silently
        match rng.below(if bare { 2 } else { 3 }) {
            0 => s.push(stmt(StmtKind::AttrNode(p0(), vec![a("constant", GExpr::str("something else"))]))),
            1 => s.push(stmt(StmtKind::AttrEdge(p0(), p1(), vec![a(&format!("w{}", step), GExpr::Int(99))]))),
            _ => s.push(stmt(StmtKind::AttrNode(GExpr::var("fresh"), vec![a("step", GExpr::Int(1000))]))),
        }
    }
    items.push(Item::Stanza(GStanza { query: "(module) @_m".into(), pool: None, stmts: s, loc: Loc::default() }));
    // many edges into an old node (beyond the inline capacity)
    if !bare && rng.chance(1, 2) {
        let st = vec![
            stmt(StmtKind::Node(GVar::u("n"))),
            stmt(StmtKind::AttrNode(GExpr::var("n"), vec![a("name", GExpr::call("source-text", vec![GExpr::cap("id")])), a("at", GExpr::List(vec![GExpr::call("start-row", vec![GExpr::cap("id")]), GExpr::call("start-column", vec![GExpr::cap("id")])]))])),
            stmt(StmtKind::Edge(p0(), GExpr::var("n"))),
            stmt(StmtKind::Edge(GExpr::var("n"), p0())),
            stmt(StmtKind::AttrEdge(GExpr::var("n"), p0(), vec![a("back", GExpr::Int(step as u32))])),
        ];
        items.push(Item::Stanza(GStanza { query: "(identifier) @id".into(), pool: None, stmts: st, loc: Loc::default() }));
    }
    GFile { items }
}

fn tag_old(g: &OGraph, n0: usize) -> OGraph {
    let mut g = g.clone();
    for (i, n) in g.nodes.iter_mut().enumerate() {
        if i < n0 {
            n.attrs.insert("__old_index".into(), MVal::Int(i as u32));
        }
    }
    g
}

/// everything in `before` is still in `after`, unchanged
fn intact(before: &OGraph, after: &OGraph, exempt_conflict: bool) -> Result<(), String> {
    if after.nodes.len() < before.nodes.len() {
        return Err(format!("the graph lost nodes: {} -> {}", before.nodes.len(), after.nodes.len()));
    }
    for (i, n) in before.nodes.iter().enumerate() {
        let m = &after.nodes[i];
        if !exempt_conflict {
            for (k, v) in &n.attrs {
                if m.attrs.get(k) != Some(v) {
                    return Err(format!("node {} attribute {} was {:?}, now {:?}", i, k, v, m.attrs.get(k)));
                }
            }
        }
        for (s, ea) in &n.edges {
            match m.edges.get(s) {
                None => return Err(format!("edge {} -> {} disappeared", i, s)),
                Some(eb) => {
                    if !exempt_conflict {
                        for (k, v) in ea {
                            if eb.get(k) != Some(v) {
                                return Err(format!("edge {} -> {} attribute {} was {:?}, now {:?}", i, s, k, v, eb.get(k)));
                            }
                        }
                    }
                }
            }
        }
    }
    Ok(())
}

/// Single assignment also holds for the attributes the executor writes itself: a configuration
/// that gives two debug attributes the same name makes every `node` statement assign two
/// different values to one attribute, which must fail.
fn debug_attribute_name_clash(rng: &mut Rng, out: &mut Out) {
    let text = "(module) { node n attr (n) k = 1 }\n";
    let source = "x = 1\n";
    let tree = parse_python(source);
    let file = match exec::load(text) {
        Loaded::Ok(f) => f,
        _ => {
            out.inconclusive("harness: directed program rejected");
            return;
        }
    };
    let functions = stdlib();
    let vars = Variables::new();
    let (l, v, m) = *rng.pick(&[("dbg", "dbg", "dbg_m"), ("dbg", "dbg_v", "dbg"), ("dbg_l", "dbg", "dbg"), ("dbg", "dbg", "dbg")]);
    for lazy in [false, true] {
        let mode = if lazy { "lazy" } else { "strict" };
        let r = catch(|| {
            let config = ExecutionConfig::new(&functions, &vars).lazy(lazy).debug_attributes(Identifier::from(l), Identifier::from(v), Identifier::from(m));
            file.execute(&tree, source, &config, &NoCancellation).map(|g| g.pretty_print().to_string())
        });
        out.eval();
        let case = json!({"dsl": text, "source": source, "mode": mode, "debug_attribute_names": [l, v, m]});
        match r {
            Err(p) => {
                out.violation(&format!("C09:panic:{}", mode), &format!("{}: {}", p.location, p.message), case);
                return;
            }
            Ok(Ok(g)) => {
                out.violation(&format!("C09:conflict-accepted:{}:debug-attribute-names", mode), &format!("two debug attributes share a name, every node statement assigns it twice with different values, and execution succeeds: {}", crate::util::trunc(&g, 200)), case);
                return;
            }
            Ok(Err(_)) => out.feat("debug_attribute_name_clash_rejected"),
        }
    }
}

impl Prop for C09 {
    fn id(&self) -> &'static str {
        "C09"
    }
    fn cases(&self, cfg: &RunCfg) -> usize {
        match cfg.tier {
            Tier::Quick => 500,
            Tier::Thorough => 25_000,
        }
    }
    fn run_case(&self, _cfg: &RunCfg, idx: usize, rng: &mut Rng, out: &mut Out) {
        if idx % 40 == 7 {
            debug_attribute_name_clash(rng, out);
            return;
        }
        let steps = rng.range(1, 3);
        let functions = stdlib();
        // all trees must outlive the graph
        let sources: Vec<String> = (0..steps).map(|_| py::gen_any_source(rng, 6, 10)).collect();
        let trees: Vec<tree_sitter::Tree> = sources.iter().map(|s| parse_python(s)).collect();
        let tis: Vec<TreeInfo> = trees.iter().map(TreeInfo::new).collect();
        if tis.iter().any(|t| t.anomaly.is_some()) {
            out.inconclusive("tree-sitter anomaly");
            return;
        }
        let mut graph = Graph::new();
        let mut model_graph = OGraph::new();
        let mut history: Vec<serde_json::Value> = Vec::new();
        let mut hist_hash = 0u64;
        let use_debug = rng.chance(1, 4);
        // syntax nodes of earlier trees live in the graph: observe each step with its own tree
        // only (programs do not store syntax nodes of other trees: attribute values of earlier
        // steps that are syntax nodes are compared by the earlier snapshot)
        for step in 0..steps {
            let lazy = rng.chance(1, 2);
            let n0 = graph.node_count();
            let before = match observe_graph_multi(&graph, &tis) {
                Ok(g) => g,
                Err(e) => {
                    out.violation("C09:unreadable-graph", &e, json!({"history": history}));
                    return;
                }
            };
            // pick the program
            let (mut file, mut globals, kind): (GFile, BTreeMap<String, MVal>, &str) = if n0 >= 2 && rng.chance(3, 5) {
                let conflict = rng.chance(1, 6);
                let mut g = BTreeMap::new();
                let mut p0 = rng.below(n0);
                // an attribute of an earlier execution on some node, with a scalar value
                let mut cross: Option<(String, GExpr)> = None;
                let mut cross_kind = "";
                if rng.chance(1, 2) {
                    let cands: Vec<(usize, String, MVal)> = before
                        .nodes
                        .iter()
                        .enumerate()
                        .flat_map(|(i, n)| n.attrs.iter().filter(|(k, v)| matches!(v, MVal::Int(_) | MVal::Str(_) | MVal::Bool(_)) && !k.starts_with("dbg_")).map(move |(k, v)| (i, k.clone(), v.clone())))
                        .collect();
                    if !cands.is_empty() {
                        let (i, k, v) = cands[rng.below(cands.len())].clone();
                        p0 = i;
                        let same = rng.chance(1, 2);
                        let e = match (&v, same) {
                            (MVal::Int(x), true) => GExpr::Int(*x),
                            (MVal::Int(x), false) => GExpr::Int(x.wrapping_add(1)),
                            (MVal::Str(x), true) => GExpr::Str(x.clone()),
                            (MVal::Str(x), false) => GExpr::Str(format!("{}!", x)),
                            (MVal::Bool(x), true) => if *x { GExpr::True } else { GExpr::False },
                            (MVal::Bool(x), false) => if *x { GExpr::False } else { GExpr::True },
                            _ => GExpr::Null,
                        };
                        cross = Some((k, e));
                        cross_kind = if same { "prev_equal_value_across_executions" } else { "prev_conflict_across_executions" };
                    }
                }
                let mut p1 = rng.below(n0);
                if p1 == p0 {
                    p1 = (p0 + 1) % n0;
                }
                g.insert("prev0".to_string(), MVal::GNode(p0));
                g.insert("prev1".to_string(), MVal::GNode(p1));
                let kind = if !cross_kind.is_empty() { cross_kind } else if conflict { "prev_with_conflict" } else { "prev" };
                (prev_program(rng, step, conflict, cross), g, kind)
            } else {
                let mut cfg = GenCfg::order_insensitive();
                cfg.max_stanzas = 3;
                cfg.fault_pct = 8;
                cfg.print = false;
                let p = crate::gen::dsl::gen_program(rng, &cfg);
                (p.file, p.globals, "generated")
            };
            file.number();
            let text = print_house(&mut file);
            let ti = &tis[step];
            // values of earlier steps that are syntax nodes of other trees cannot be observed
            // against this tree: generated programs store syntax nodes, so only one generated
            // step per history may do so; simply stop histories that would mix trees
            let prep = match prepare(&file, &trees[step], &sources[step], ti) {
                Ok(p) => p,
                Err(_) => return,
            };
            if prep.rootless > 0 || prep.shape_anomalies > 0 {
                return;
            }
            let loaded = match exec::load(&text) {
                Loaded::Ok(f) => f,
                _ => {
                    out.feat("load_rejected");
                    return;
                }
            };
            let refs: Vec<_> = graph.iter_nodes().collect();
            let vars: Variables = {
                let mut v = Variables::new();
                for (k, val) in &globals {
                    let conv = exec::to_value(val, &|i| refs.get(i).map(|r| Value::GraphNode(*r)));
                    if let Some(c) = conv {
                        let _ = v.add(Identifier::from(k.as_str()), c);
                    }
                }
                v
            };
            history.push(json!({"step": step, "mode": if lazy { "lazy" } else { "strict" }, "kind": kind, "dsl": text, "source": sources[step], "globals": globals.iter().map(|(k, v)| (k.clone(), v.to_json())).collect::<serde_json::Map<_, _>>(), "debug_attributes": use_debug, "nodes_before": n0}));
            hist_hash = mix(&[hist_hash, hash_str(&text), hash_str(&sources[step]), lazy as u64]);
            let r = catch(|| {
                let mut config = ExecutionConfig::new(&functions, &vars).lazy(lazy);
                if use_debug {
                    config = config.debug_attributes(Identifier::from(DBG[0]), Identifier::from(DBG[1]), Identifier::from(DBG[2]));
                }
                loaded.execute_into(&mut graph, &trees[step], &sources[step], &config, &NoCancellation)
            });
            out.eval();
            let case = || json!({"history": history});
            let res = match r {
                Err(p) => {
                    out.violation(&format!("C09:panic:{}", if lazy { "lazy" } else { "strict" }), &format!("{}: {}", p.location, p.message), case());
                    return;
                }
                Ok(r) => r,
            };
            let after = match observe_graph_multi(&graph, &tis) {
                Ok(g) => g,
                Err(e) => {
                    out.violation("C09:unreadable-graph", &e, case());
                    return;
                }
            };
            // model from the old graph
            let (model, counters) = match run_model(&file, ti, &sources[step], &globals, &prep.matches, Some(model_graph.clone())) {
                Ok(m) => m,
                Err(e) => {
                    out.inconclusive(&format!("harness: {}", crate::util::trunc(&e, 80)));
                    return;
                }
            };
            // the model numbers syntax nodes of this step's tree from 0: move them into the
            // per-tree code space used by the observation
            let model = match model {
                Outcome::Graph(g) => Outcome::Graph(remap_syn(&g, step)),
                other => other,
            };
            match (&res, &model) {
                (Ok(()), Outcome::Graph(mg)) => {
                    if let Err(why) = intact(&before, &after, false) {
                        out.violation(&format!("C09:existing-content-changed:{}", if lazy { "lazy" } else { "strict" }), &why, case());
                        return;
                    }
                    let stripped = after.without_attrs(&DBG);
                    let cmp = isomorphic(&tag_old(mg, n0), &tag_old(&stripped, n0), 300_000);
                    match cmp {
                        Iso::Same => {}
                        Iso::Different(why) => {
                            out.violation(&format!("C09:graph-differs:{}", if lazy { "lazy" } else { "strict" }), &format!("after step {} the graph differs from the reference model (old nodes pinned): {}", step, why), case());
                            return;
                        }
                        Iso::Unknown => {
                            out.inconclusive("isomorphism budget exhausted");
                            return;
                        }
                    }
                    // one edge per ordered pair is structural in the observation (BTreeMap by
                    // sink, ascending iteration asserted by observe_graph)
                    model_graph = mg.clone();
                    // the model continues from the real numbering: adopt the real graph
                    model_graph = stripped_to_model(&stripped);
                    out.feat(&format!("step_ok:{}", if lazy { "lazy" } else { "strict" }));
                    out.feat(&format!("step_kind:{}", kind));
                    if n0 > 0 {
                        out.feat("executed_into_non_empty_graph");
                    }
                    if kind == "prev_equal_value_across_executions" {
                        out.feat("equal_value_of_earlier_execution_accepted");
                    }
                    if counters.edge_recreated > 0 {
                        out.feat("existing_edge_recreated");
                    }
                    if counters.attr_reassigned_equal > 0 {
                        out.feat("equal_value_reassigned");
                    }
                    if after.nodes.iter().any(|n| n.edges.len() > 8) {
                        out.feat("node_with_more_than_8_edges");
                    }
                }
                (Err(e), Outcome::Error(me)) => {
                    let info = analyse_error(e);
                    out.feat(&format!("step_failed:{}:{}", me.class.name(), info.root));
                    if let Err(why) = intact(&before, &after, true) {
                        out.violation("C09:failing-step-lost-content", &why, case());
                        return;
                    }
                    if kind == "prev_with_conflict" {
                        out.feat("conflicting_value_rejected");
                    }
                    if kind == "prev_conflict_across_executions" {
                        out.feat("conflict_with_value_of_earlier_execution_rejected");
                    }
                    break;
                }
                (Ok(()), Outcome::Error(me)) => {
                    out.violation(&format!("C09:conflict-accepted:{}:{}", if lazy { "lazy" } else { "strict" }, me.class.name()), &format!("step {} succeeded although the reference rules make it fail with {}", step, me.class.name()), case());
                    return;
                }
                (Err(e), Outcome::Graph(_)) => {
                    let info = analyse_error(e);
                    out.violation(&format!("C09:spurious-error:{}:{}", if lazy { "lazy" } else { "strict" }, info.root), &format!("step {} failed: {}", step, crate::util::trunc(&info.display, 300)), case());
                    return;
                }
            }
            let _ = &mut globals;
        }
        if use_debug {
            out.feat("history_with_debug_attributes");
        }
        out.feat(&format!("history_length:{}", steps));
        out.nontrivial(hist_hash);
        if out.want_sample() && steps >= 2 && history.iter().map(|h| h["dsl"].as_str().unwrap_or("").len()).sum::<usize>() < 3500 {
            out.sample(json!({"history": history}));
        }
    }
}

fn remap_syn(g: &OGraph, step: usize) -> OGraph {
    fn mv(v: &MVal, step: usize) -> MVal {
        match v {
            MVal::Syn(i) if *i < 1_000_000 => MVal::Syn((step + 1) * 1_000_000 + i),
            MVal::List(xs) => MVal::List(xs.iter().map(|x| mv(x, step)).collect()),
            MVal::Set(xs) => MVal::Set(xs.iter().map(|x| mv(x, step)).collect()),
            other => other.clone(),
        }
    }
    let mut out = g.clone();
    for n in &mut out.nodes {
        for v in n.attrs.values_mut() {
            *v = mv(v, step);
        }
        for e in n.edges.values_mut() {
            for v in e.values_mut() {
                *v = mv(v, step);
            }
        }
    }
    out
}

/// the model's next initial graph = what is really there (debug attributes included: they are
/// ordinary attributes for later steps)
fn stripped_to_model(g: &OGraph) -> OGraph {
    g.clone()
}

/// observe a graph whose syntax nodes may belong to several trees: try every tree
fn observe_graph_multi(graph: &Graph, tis: &[TreeInfo]) -> Result<OGraph, String> {
    // syntax node indices are only comparable within one tree; offset them per tree
    use tree_sitter_graph::graph::Value as V;
    fn conv(graph: &Graph, tis: &[TreeInfo], v: &V) -> Result<MVal, String> {
        Ok(match v {
            V::Null => MVal::Null,
            V::Boolean(b) => MVal::Bool(*b),
            V::Integer(i) => MVal::Int(*i),
            V::String(s) => MVal::Str(s.clone()),
            V::List(xs) => MVal::List(xs.iter().map(|x| conv(graph, tis, x)).collect::<Result<_, _>>()?),
            V::Set(xs) => MVal::Set(xs.iter().map(|x| conv(graph, tis, x)).collect::<Result<_, _>>()?),
            V::GraphNode(r) => MVal::GNode(r.index()),
            V::SyntaxNode(r) => {
                let node = &graph[*r];
                for (k, ti) in tis.iter().enumerate() {
                    if let Some(i) = ti.index_of(node) {
                        // same tree-sitter id can only belong to one live tree
                        if ti.nodes[i].start == (node.start_position().row, node.start_position().column) && ti.nodes[i].kind == node.kind() {
                            return Ok(MVal::Syn((k + 1) * 1_000_000 + i));
                        }
                    }
                }
                return Err("syntax node reference resolves outside every tree of the history".into());
            }
        })
    }
    let mut g = OGraph::new();
    for (pos, r) in graph.iter_nodes().enumerate() {
        if r.index() != pos {
            return Err("iter_nodes out of order".into());
        }
        let mut on = ONode::default();
        for (k, v) in graph[r].attributes.iter() {
            on.attrs.insert(k.as_str().to_string(), conv(graph, tis, v)?);
        }
        let mut last = None;
        for (sink, e) in graph[r].iter_edges() {
            if let Some(l) = last {
                if sink.index() <= l {
                    return Err(format!("two edges {} -> {} or edges out of order", pos, sink.index()));
                }
            }
            last = Some(sink.index());
            let mut ea = Attrs::new();
            for (k, v) in e.attributes.iter() {
                ea.insert(k.as_str().to_string(), conv(graph, tis, v)?);
            }
            on.edges.insert(sink.index(), ea);
        }
        g.nodes.push(on);
    }
    Ok(g)
}
