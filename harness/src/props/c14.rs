//! C14 – JSON and pretty-printed output encode the graph faithfully and completely.
//! The harness decodes both outputs with its own decoders and compares them with what the
//! in-memory API (iter_nodes / iter_edges / attributes) reports.

use super::common::*;
use crate::gen::dsl::GenCfg;
use crate::gen::py;
use crate::model::value::*;
use crate::oracle::exec::{self, Loaded};
use crate::oracle::observe::observe_graph;
use crate::oracle::tree::{parse_python, TreeInfo};
use crate::util::{catch, hash_str, Out, Rng};
use crate::{Prop, RunCfg, Tier};
use serde_json::{json, Value as J};
use std::collections::{BTreeMap, BTreeSet, HashMap};
use tree_sitter_graph::graph::{Graph, GraphNodeRef, Value};
use tree_sitter_graph::{ExecutionConfig, Identifier, NoCancellation, Variables};

pub struct C14;

const STRS: &[&str] = &[
    "", "plain", "with \"quotes\"", "back\\slash", "new\nline", "tab\there", "nul\0byte", "é ü ñ",
    "日本語", "😀 astral", "\u{2028}line sep", "\u{7f}del", "\u{1b}[0m", "'single'", "{braces}",
    "[brackets]", "a, b", "#null", "[graph node 3]", "  leading", "C:\\temp\\new", "a\\nb", "\\", "ends with \\", "cr\r\nlf", "\r", "\n\r",
];

fn gen_val<'t>(rng: &mut Rng, graph: &mut Graph<'t>, refs: &[GraphNodeRef], ti: &TreeInfo<'t>, depth: usize) -> Value {
    let top = if depth >= 3 { 6 } else { 9 };
    match rng.below(top) {
        0 => Value::Null,
        1 => Value::Boolean(rng.chance(1, 2)),
        2 => Value::Integer(*rng.pick(&[0u32, 1, 42, u32::MAX])),
        3 => Value::String((*rng.pick(STRS)).to_string()),
        4 => {
            if refs.is_empty() {
                Value::Null
            } else {
                Value::GraphNode(refs[rng.below(refs.len())])
            }
        }
        5 => {
            let i = rng.below(ti.ts_nodes.len());
            Value::SyntaxNode(graph.add_syntax_node(ti.ts_nodes[i]))
        }
        6 | 7 => Value::List((0..rng.below(4)).map(|_| gen_val(rng, graph, refs, ti, depth + 1)).collect()),
        _ => Value::Set((0..rng.below(4)).map(|_| gen_val(rng, graph, refs, ti, depth + 1)).collect()),
    }
}

const ATTRS: &[&str] = &["a", "b", "name", "kind", "zeta", "Alpha", "_x", "x-y", "a1", "a10", "a2", "Kind", "KIND", "name_range", "def", "def_kind", "na", "größe", "名前", "é", "naïve_kind"];

fn build_graph<'t>(rng: &mut Rng, ti: &TreeInfo<'t>) -> Graph<'t> {
    let mut graph = Graph::new();
    let n = match rng.below(6) {
        0 => 0,
        1 => 1,
        _ => rng.range(2, 40),
    };
    let refs: Vec<GraphNodeRef> = (0..n).map(|_| graph.add_graph_node()).collect();
    let dense = rng.chance(1, 4);
    for i in 0..n {
        let na = rng.below(4);
        for _ in 0..na {
            let v = gen_val(rng, &mut graph, &refs, ti, 0);
            let _ = graph[refs[i]].attributes.add(Identifier::from(*rng.pick(ATTRS)), v);
        }
        let ne = if dense { rng.range(0, n.min(14)) } else { rng.below(3) };
        for _ in 0..ne {
            let s = refs[rng.below(n)];
            let k = rng.below(3);
            let mut vals = Vec::new();
            for _ in 0..k {
                vals.push(gen_val(rng, &mut graph, &refs, ti, 1));
            }
            let edge = match graph[refs[i]].add_edge(s) {
                Ok(e) | Err(e) => e,
            };
            for v in vals {
                let _ = edge.attributes.add(Identifier::from(*rng.pick(ATTRS)), v);
            }
        }
    }
    graph
}

// ------------------------------------------------------------------------------------------
// JSON decoder

fn decode_value(j: &J, syn_ids: &HashMap<u64, usize>) -> Result<MVal, String> {
    let o = j.as_object().ok_or("value is not an object")?;
    let ty = o.get("type").and_then(|t| t.as_str()).ok_or("value without type tag")?;
    let only = |keys: &[&str]| -> Result<(), String> {
        for k in o.keys() {
            if k != "type" && !keys.contains(&k.as_str()) {
                return Err(format!("unexpected key {} in {} value", k, ty));
            }
        }
        for k in keys {
            if !o.contains_key(*k) {
                return Err(format!("missing key {} in {} value", k, ty));
            }
        }
        Ok(())
    };
    Ok(match ty {
        "null" => {
            only(&[])?;
            MVal::Null
        }
        "bool" => {
            only(&["bool"])?;
            MVal::Bool(o["bool"].as_bool().ok_or("bool is not a boolean")?)
        }
        "int" => {
            only(&["int"])?;
            let n = o["int"].as_u64().ok_or("int is not an unsigned number")?;
            if n > u32::MAX as u64 {
                return Err("int out of range".into());
            }
            MVal::Int(n as u32)
        }
        "string" => {
            only(&["string"])?;
            MVal::Str(o["string"].as_str().ok_or("string is not a string")?.to_string())
        }
        "list" => {
            only(&["values"])?;
            let xs = o["values"].as_array().ok_or("values is not an array")?;
            MVal::List(xs.iter().map(|x| decode_value(x, syn_ids)).collect::<Result<_, _>>()?)
        }
        "set" => {
            only(&["values"])?;
            let xs = o["values"].as_array().ok_or("values is not an array")?;
            let mut s = BTreeSet::new();
            for x in xs {
                if !s.insert(decode_value(x, syn_ids)?) {
                    return Err("set lists an element twice".into());
                }
            }
            MVal::Set(s)
        }
        "syntaxNode" => {
            only(&["id"])?;
            let id = o["id"].as_u64().ok_or("syntax node id is not a number")?;
            MVal::Syn(*syn_ids.get(&id).ok_or(format!("syntax node id {} does not identify a node of the graph", id))?)
        }
        "graphNode" => {
            only(&["id"])?;
            MVal::GNode(o["id"].as_u64().ok_or("graph node id is not a number")? as usize)
        }
        other => return Err(format!("unknown type tag {}", other)),
    })
}

fn decode_attrs(j: &J, syn_ids: &HashMap<u64, usize>) -> Result<Attrs, String> {
    let o = j.as_object().ok_or("attrs is not an object")?;
    let mut a = Attrs::new();
    for (k, v) in o {
        a.insert(k.clone(), decode_value(v, syn_ids)?);
    }
    Ok(a)
}

fn decode_graph(j: &J, syn_ids: &HashMap<u64, usize>) -> Result<OGraph, String> {
    let nodes = j.as_array().ok_or("top level is not an array")?;
    let mut g = OGraph::new();
    for (i, n) in nodes.iter().enumerate() {
        let o = n.as_object().ok_or("node is not an object")?;
        for k in o.keys() {
            if !["id", "edges", "attrs"].contains(&k.as_str()) {
                return Err(format!("unexpected node key {}", k));
            }
        }
        let id = o.get("id").and_then(|x| x.as_u64()).ok_or("node without id")?;
        if id as usize != i {
            return Err(format!("node at position {} has id {}", i, id));
        }
        let mut on = ONode {
            attrs: decode_attrs(o.get("attrs").ok_or("node without attrs")?, syn_ids)?,
            edges: BTreeMap::new(),
        };
        let mut last: Option<u64> = None;
        for e in o.get("edges").and_then(|x| x.as_array()).ok_or("node without edges array")? {
            let eo = e.as_object().ok_or("edge is not an object")?;
            let sink = eo.get("sink").and_then(|x| x.as_u64()).ok_or("edge without sink")?;
            if let Some(l) = last {
                if sink <= l {
                    return Err(format!("edges of node {} not in ascending sink order / duplicated ({} after {})", i, sink, l));
                }
            }
            last = Some(sink);
            on.edges.insert(sink as usize, decode_attrs(eo.get("attrs").ok_or("edge without attrs")?, syn_ids)?);
        }
        g.nodes.push(on);
    }
    Ok(g)
}

/// table json id -> tree index, from serialising each syntax node reference on its own
fn syn_id_table(graph: &Graph, ti: &TreeInfo) -> Result<HashMap<u64, usize>, String> {
    let mut table: HashMap<u64, usize> = HashMap::new();
    let mut seen: HashMap<usize, u64> = HashMap::new();
    fn walk(v: &Value, graph: &Graph, ti: &TreeInfo, table: &mut HashMap<u64, usize>, seen: &mut HashMap<usize, u64>) -> Result<(), String> {
        match v {
            Value::List(xs) => {
                for x in xs {
                    walk(x, graph, ti, table, seen)?;
                }
            }
            Value::Set(xs) => {
                for x in xs {
                    walk(x, graph, ti, table, seen)?;
                }
            }
            Value::SyntaxNode(r) => {
                let idx = ti.index_of(&graph[*r]).ok_or("syntax node outside tree")?;
                let j = serde_json::to_value(v).map_err(|e| e.to_string())?;
                let id = j["id"].as_u64().ok_or("syntax node serialised without numeric id")?;
                if let Some(prev) = table.insert(id, idx) {
                    if prev != idx {
                        return Err(format!("two different syntax nodes share the JSON id {}", id));
                    }
                }
                if let Some(prev) = seen.insert(idx, id) {
                    if prev != id {
                        return Err("one syntax node has two JSON ids".into());
                    }
                }
            }
            _ => {}
        }
        Ok(())
    }
    for r in graph.iter_nodes() {
        for (_, v) in graph[r].attributes.iter() {
            walk(v, graph, ti, &mut table, &mut seen)?;
        }
        for (_, e) in graph[r].iter_edges() {
            for (_, v) in e.attributes.iter() {
                walk(v, graph, ti, &mut table, &mut seen)?;
            }
        }
    }
    Ok(table)
}

// ------------------------------------------------------------------------------------------
// pretty-print decoder

#[derive(Debug, Clone, PartialEq)]
enum PV {
    Null,
    Bool(bool),
    Int(u64),
    Str(String),
    List(Vec<PV>),
    Set(Vec<PV>),
    Syn(String, usize, usize),
    GNode(usize),
}

struct P<'a> {
    s: &'a [char],
    i: usize,
}

impl<'a> P<'a> {
    fn eat(&mut self, t: &str) -> bool {
        let tc: Vec<char> = t.chars().collect();
        if self.s[self.i..].starts_with(&tc) {
            self.i += tc.len();
            true
        } else {
            false
        }
    }
    fn number(&mut self) -> Result<u64, String> {
        let st = self.i;
        while self.i < self.s.len() && self.s[self.i].is_ascii_digit() {
            self.i += 1;
        }
        let t: String = self.s[st..self.i].iter().collect();
        t.parse().map_err(|_| format!("expected number at {}", st))
    }
    fn seq(&mut self, close: &str) -> Result<Vec<PV>, String> {
        let mut xs = Vec::new();
        if self.eat(close) {
            return Ok(xs);
        }
        loop {
            xs.push(self.value()?);
            if self.eat(close) {
                return Ok(xs);
            }
            if !self.eat(", ") {
                return Err(format!("expected ', ' or '{}' at {}", close, self.i));
            }
        }
    }
    fn value(&mut self) -> Result<PV, String> {
        if self.eat("#null") {
            return Ok(PV::Null);
        }
        if self.eat("#true") {
            return Ok(PV::Bool(true));
        }
        if self.eat("#false") {
            return Ok(PV::Bool(false));
        }
        if self.eat("[syntax node ") {
            // the kind may contain spaces and brackets ("is not", "(", "]"): take the shortest
            // kind that is followed by " (row, column)]"
            let st = self.i;
            let mut k = st;
            while k < self.s.len() {
                if self.s[k] == ' ' && self.s.get(k + 1) == Some(&'(') {
                    let save = self.i;
                    self.i = k + 2;
                    let ok = (|| -> Result<(usize, usize), String> {
                        let r = self.number()? as usize;
                        if !self.eat(", ") {
                            return Err("no comma".into());
                        }
                        let c = self.number()? as usize;
                        if !self.eat(")]") {
                            return Err("no end".into());
                        }
                        Ok((r, c))
                    })();
                    if let Ok((r, c)) = ok {
                        let kind: String = self.s[st..k].iter().collect();
                        return Ok(PV::Syn(kind, r, c));
                    }
                    self.i = save;
                }
                k += 1;
            }
            return Err("bad syntax node".into());
        }
        if self.eat("[graph node ") {
            let n = self.number()? as usize;
            if !self.eat("]") {
                return Err("bad graph node".into());
            }
            return Ok(PV::GNode(n));
        }
        if self.eat("[") {
            return Ok(PV::List(self.seq("]")?));
        }
        if self.eat("{") {
            return Ok(PV::Set(self.seq("}")?));
        }
        if self.eat("\"") {
            let mut out = String::new();
            loop {
                if self.i >= self.s.len() {
                    return Err("unterminated string".into());
                }
                let c = self.s[self.i];
                self.i += 1;
                match c {
                    '"' => return Ok(PV::Str(out)),
                    '\\' => {
                        let e = *self.s.get(self.i).ok_or("dangling backslash")?;
                        self.i += 1;
                        match e {
                            'n' => out.push('\n'),
                            'r' => out.push('\r'),
                            't' => out.push('\t'),
                            '0' => out.push('\0'),
                            '\\' => out.push('\\'),
                            '"' => out.push('"'),
                            '\'' => out.push('\''),
                            'u' => {
                                if !self.eat("{") {
                                    return Err("bad unicode escape".into());
                                }
                                let st = self.i;
                                while self.i < self.s.len() && self.s[self.i] != '}' {
                                    self.i += 1;
                                }
                                let hex: String = self.s[st..self.i].iter().collect();
                                self.i += 1;
                                let cp = u32::from_str_radix(&hex, 16).map_err(|_| "bad hex")?;
                                out.push(char::from_u32(cp).ok_or("bad code point")?);
                            }
                            other => return Err(format!("unknown escape \\{}", other)),
                        }
                    }
                    c => out.push(c),
                }
            }
        }
        if self.i < self.s.len() && self.s[self.i].is_ascii_digit() {
            return Ok(PV::Int(self.number()?));
        }
        Err(format!("cannot parse value at {}", self.i))
    }
}

fn pv_matches(p: &PV, m: &MVal, ti: &TreeInfo) -> bool {
    match (p, m) {
        (PV::Null, MVal::Null) => true,
        (PV::Bool(a), MVal::Bool(b)) => a == b,
        (PV::Int(a), MVal::Int(b)) => *a == *b as u64,
        (PV::Str(a), MVal::Str(b)) => a == b,
        (PV::List(a), MVal::List(b)) => a.len() == b.len() && a.iter().zip(b.iter()).all(|(x, y)| pv_matches(x, y, ti)),
        (PV::Set(a), MVal::Set(b)) => {
            if a.len() != b.len() {
                return false;
            }
            // match as multisets
            let mut used = vec![false; a.len()];
            for y in b {
                let mut ok = false;
                for (i, x) in a.iter().enumerate() {
                    if !used[i] && pv_matches(x, y, ti) {
                        used[i] = true;
                        ok = true;
                        break;
                    }
                }
                if !ok {
                    return false;
                }
            }
            true
        }
        (PV::Syn(k, r, c), MVal::Syn(i)) => {
            let n = &ti.nodes[*i];
            k == n.kind && *r == n.start.0 + 1 && *c == n.start.1 + 1
        }
        (PV::GNode(a), MVal::GNode(b)) => a == b,
        _ => false,
    }
}

fn check_pretty(text: &str, g: &OGraph, ti: &TreeInfo) -> Result<(), String> {
    // expected sequence of records: node i, its attrs (sorted), then each edge in sink order
    let lines: Vec<&str> = if text.is_empty() { vec![] } else { text.strip_suffix('\n').ok_or("output does not end with a newline")?.split('\n').collect() };
    let mut li = 0usize;
    let mut attrs_block = |li: &mut usize, attrs: &Attrs, what: &str| -> Result<(), String> {
        let mut prev: Option<String> = None;
        let mut count = 0;
        while *li < lines.len() && lines[*li].starts_with("  ") {
            let line = &lines[*li][2..];
            let pos = line.find(": ").ok_or(format!("attribute line without ': ' in {}", what))?;
            let name = &line[..pos];
            if let Some(p) = &prev {
                if p.as_str() >= name {
                    return Err(format!("attributes of {} not sorted by name ({} then {})", what, p, name));
                }
            }
            prev = Some(name.to_string());
            let chars: Vec<char> = line[pos + 2..].chars().collect();
            let mut p = P { s: &chars, i: 0 };
            let pv = p.value().map_err(|e| format!("{}: cannot read value of {}: {}", what, name, e))?;
            if p.i != chars.len() {
                return Err(format!("{}: trailing text after value of {}", what, name));
            }
            let expect = attrs.get(name).ok_or(format!("{} shows attribute {} which the graph does not have", what, name))?;
            if !pv_matches(&pv, expect, ti) {
                return Err(format!("{} attribute {} printed as {:?}, in memory {:?}", what, name, pv, expect));
            }
            count += 1;
            *li += 1;
        }
        if count != attrs.len() {
            return Err(format!("{} shows {} attributes, the graph has {}", what, count, attrs.len()));
        }
        Ok(())
    };
    for (i, n) in g.nodes.iter().enumerate() {
        if li >= lines.len() || lines[li] != format!("node {}", i) {
            return Err(format!("expected 'node {}' at line {}, found {:?}", i, li + 1, lines.get(li)));
        }
        li += 1;
        attrs_block(&mut li, &n.attrs, &format!("node {}", i))?;
        for (sink, ea) in &n.edges {
            if li >= lines.len() || lines[li] != format!("edge {} -> {}", i, sink) {
                return Err(format!("expected 'edge {} -> {}' at line {}, found {:?}", i, sink, li + 1, lines.get(li)));
            }
            li += 1;
            attrs_block(&mut li, ea, &format!("edge {} -> {}", i, sink))?;
        }
    }
    if li != lines.len() {
        return Err(format!("{} extra lines at the end", lines.len() - li));
    }
    Ok(())
}

fn check_graph(graph: &Graph, ti: &TreeInfo, out: &mut Out, case: &dyn Fn() -> J) -> Option<OGraph> {
    let observed = match observe_graph(graph, ti) {
        Ok(g) => g,
        Err(e) => {
            out.violation("C14:unreadable-graph", &e, case());
            return None;
        }
    };
    let table = match syn_id_table(graph, ti) {
        Ok(t) => t,
        Err(e) => {
            out.violation("C14:syntax-node-ids", &e, case());
            return None;
        }
    };
    // JSON through the serializer and through text (the text must be valid JSON)
    let text = match catch(|| serde_json::to_string_pretty(graph)) {
        Ok(Ok(t)) => t,
        Ok(Err(e)) => {
            out.violation("C14:json-serialise-error", &e.to_string(), case());
            return None;
        }
        Err(p) => {
            out.violation("C14:json-panic", &format!("{}: {}", p.location, p.message), case());
            return None;
        }
    };
    out.eval();
    let parsed: J = match serde_json::from_str(&text) {
        Ok(j) => j,
        Err(e) => {
            out.violation("C14:invalid-json", &e.to_string(), case());
            return None;
        }
    };
    match decode_graph(&parsed, &table) {
        Ok(dg) => {
            if dg != observed {
                let why = crate::oracle::iso::first_difference(&dg, &observed).unwrap_or_default();
                out.violation("C14:json-differs", &format!("decoded JSON differs from the in-memory graph: {}", why), case());
                return None;
            }
        }
        Err(e) => {
            out.violation("C14:json-malformed", &e, case());
            return None;
        }
    }
    let pretty = match catch(|| graph.pretty_print().to_string()) {
        Ok(t) => t,
        Err(p) => {
            out.violation("C14:pretty-panic", &format!("{}: {}", p.location, p.message), case());
            return None;
        }
    };
    out.eval();
    if let Err(e) = check_pretty(&pretty, &observed, ti) {
        let mut c = case();
        c["pretty"] = json!(crate::util::trunc(&pretty, 1500));
        out.violation("C14:pretty-differs", &e, c);
        return None;
    }
    Some(observed)
}

impl Prop for C14 {
    fn id(&self) -> &'static str {
        "C14"
    }
    fn cases(&self, cfg: &RunCfg) -> usize {
        match cfg.tier {
            Tier::Quick => 2500,
            Tier::Thorough => 120_000,
        }
    }
    fn run_case(&self, _cfg: &RunCfg, idx: usize, rng: &mut Rng, out: &mut Out) {
        // now and then one very long line: positions beyond column 65535 are positions too
        let source = if idx % 61 == 7 {
            out.feat("source_with_a_line_longer_than_65535_columns");
            let n = 7000 + rng.below(1500);
            format!("v = [{}last]\nw = v\n", "abcdefghij, ".repeat(n))
        } else {
            py::gen_any_source(rng, 5, 20)
        };
        let tree = parse_python(&source);
        let ti = TreeInfo::new(&tree);
        if ti.anomaly.is_some() {
            out.inconclusive("tree-sitter anomaly");
            return;
        }
        if idx % 4 != 3 {
            // graphs built through the public API
            let mut graph = build_graph(rng, &ti);
            // print, change, print again: the second output must describe the changed graph
            if rng.chance(1, 2) && graph.node_count() > 0 {
                let first_ok = {
                    let case = || json!({"kind": "api-built graph (before a later change)", "pretty": crate::util::trunc(&graph.pretty_print().to_string(), 1200)});
                    check_graph(&graph, &ti, out, &case).is_some()
                };
                if !first_ok {
                    return;
                }
                let refs: Vec<GraphNodeRef> = graph.iter_nodes().collect();
                for k in 0..rng.range(1, 4) {
                    let r = refs[rng.below(refs.len())];
                    let v = gen_val(rng, &mut graph, &refs, &ti, 1);
                    let name = format!("late_{}_{}", k, *rng.pick(ATTRS));
                    let _ = graph[r].attributes.add(Identifier::from(name.as_str()), v);
                    let sinks: Vec<GraphNodeRef> = graph[r].iter_edges().map(|(s, _)| s).collect();
                    if let Some(sk) = sinks.first() {
                        let v2 = gen_val(rng, &mut graph, &refs, &ti, 1);
                        if let Some(e) = graph[r].get_edge_mut(*sk) {
                            let _ = e.attributes.add(Identifier::from(format!("late_edge_{}", k).as_str()), v2);
                        }
                    }
                }
                out.feat("printed_changed_printed_again");
            }
            // display_json into a file that already holds something longer
            if rng.chance(1, 6) {
                let dir = std::env::current_dir().unwrap_or_else(|_| std::env::temp_dir()).join(format!("tsgmon_c14_{}", std::process::id()));
                let _ = std::fs::create_dir_all(&dir);
                let path = dir.join("graph.json");
                let _ = std::fs::write(&path, "x".repeat(200_000));
                let r = catch(|| graph.display_json(Some(&path)));
                out.eval();
                let content = std::fs::read_to_string(&path).unwrap_or_default();
                let _ = std::fs::remove_file(&path);
                let case = json!({"kind": "display_json into an existing, longer file", "pretty": crate::util::trunc(&graph.pretty_print().to_string(), 800)});
                match r {
                    Err(p) => {
                        out.violation("C14:display_json-panic", &format!("{}: {}", p.location, p.message), case);
                        return;
                    }
                    Ok(Err(e)) => {
                        out.inconclusive(&format!("harness: cannot write temporary file: {}", e));
                    }
                    Ok(Ok(())) => {
                        let parsed: Result<J, _> = serde_json::from_str(&content);
                        let direct = serde_json::to_value(&graph).ok();
                        match parsed {
                            Ok(j) if Some(&j) == direct.as_ref() => out.feat("display_json_over_existing_file"),
                            Ok(_) => {
                                out.violation("C14:display_json-file-differs", "the file written by display_json decodes to something else than the graph", case);
                                return;
                            }
                            Err(e) => {
                                out.violation("C14:display_json-file-invalid", &format!("the file written by display_json over an existing file is not valid JSON: {}", e), case);
                                return;
                            }
                        }
                    }
                }
            }
            let case = || json!({"kind": "api-built graph", "pretty": crate::util::trunc(&graph.pretty_print().to_string(), 1200), "source": crate::util::trunc(&source, 200)});
            if let Some(g) = check_graph(&graph, &ti, out, &case) {
                out.feat("api_graph");
                out.feat_n("nodes", g.nodes.len() as u64);
                out.feat_n("edges", g.edge_count() as u64);
                if g.nodes.iter().any(|n| n.edges.len() > 8) {
                    out.feat("node_with_more_than_8_edges");
                }
                if g.nodes.is_empty() {
                    out.feat("empty_graph");
                }
                let txt = format!("{:?}", g);
                for (tag, pat) in [("set", "Set("), ("list", "List("), ("syn", "Syn("), ("gnode", "GNode("), ("null", "Null"), ("bool", "Bool("), ("int", "Int("), ("str", "Str(")] {
                    if txt.contains(pat) {
                        out.feat(&format!("value:{}", tag));
                    }
                }
                if g.attr_count() > 0 {
                    out.nontrivial(hash_str(&txt));
                }
                if out.want_sample() && g.nodes.len() > 1 && g.nodes.len() < 6 {
                    out.sample(json!({"kind": "api-built graph", "graph": g.to_json()}));
                }
            }
        } else {
            // graphs produced by executing generated programs
            let gcfg = GenCfg::order_insensitive();
            let case = build_case(rng, &gcfg, 0, 10, 8);
            let tree2 = parse_python(&case.source);
            let ti2 = TreeInfo::new(&tree2);
            if ti2.anomaly.is_some() {
                return;
            }
            let file = match exec::load(&case.text) {
                Loaded::Ok(f) => f,
                _ => return,
            };
            let functions = stdlib();
            let vars: Variables = exec::make_globals(&case.prog.globals, &|_| None);
            let lazy = rng.chance(1, 2);
            // every other graph is the result of two executions into one graph (the second in
            // the other mode): syntax nodes registered by the first are already there
            let twice = rng.chance(1, 2);
            let r = catch(|| {
                let config = ExecutionConfig::new(&functions, &vars).lazy(lazy);
                if twice {
                    let mut g = tree_sitter_graph::graph::Graph::new();
                    file.execute_into(&mut g, &tree2, &case.source, &config, &NoCancellation)?;
                    let config2 = ExecutionConfig::new(&functions, &vars).lazy(!lazy);
                    file.execute_into(&mut g, &tree2, &case.source, &config2, &NoCancellation)?;
                    Ok(g)
                } else {
                    file.execute(&tree2, &case.source, &config, &NoCancellation)
                }
            });
            if let Ok(Ok(graph)) = r {
                if twice {
                    out.feat("graph_of_two_executions_into_one_graph");
                }
                let cj = || case_json(&case.text, &case.source, &case.prog.globals);
                if let Some(g) = check_graph(&graph, &ti2, out, &cj) {
                    out.feat("executed_graph");
                    if g.attr_count() > 0 {
                        out.nontrivial(hash_str(&format!("{:?}", g)));
                    }
                }
            }
        }
    }
}
