//! Match oracle: enumerate the matches of a stanza's pattern with plain tree-sitter, in
//! tree-sitter's order, and shape capture values by the capture's quantifier.

use crate::gen::ast::Quant;
use crate::model::interp::MatchInfo;
use crate::model::value::MVal;
use crate::oracle::tree::{python, TreeInfo};
use std::collections::BTreeMap;
use streaming_iterator::StreamingIterator;
use tree_sitter::{CaptureQuantifier, Query, QueryCursor, Tree};

pub const ORACLE_ROOT: &str = "orc__root";

pub struct StanzaQuery {
    pub query: Query,
    pub root_index: u32,
    /// user captures: (name, quantifier, capture index)
    pub captures: Vec<(String, Quant, u32)>,
}

fn to_quant(q: CaptureQuantifier) -> Option<Quant> {
    match q {
        CaptureQuantifier::Zero => None,
        CaptureQuantifier::One => Some(Quant::One),
        CaptureQuantifier::ZeroOrOne => Some(Quant::Opt),
        CaptureQuantifier::ZeroOrMore => Some(Quant::Star),
        CaptureQuantifier::OneOrMore => Some(Quant::Plus),
    }
}

/// Compile the pattern as written plus the oracle's own root capture.
pub fn compile(pattern: &str) -> Result<StanzaQuery, String> {
    let text = format!("{}@{}", pattern, ORACLE_ROOT);
    let query = Query::new(&python(), &text).map_err(|e| format!("{:?}", e))?;
    if query.pattern_count() != 1 {
        return Err("not exactly one pattern".into());
    }
    let root_index = query
        .capture_index_for_name(ORACLE_ROOT)
        .ok_or("no root capture")?;
    let quants = query.capture_quantifiers(0);
    let mut captures = Vec::new();
    for name in query.capture_names() {
        if *name == ORACLE_ROOT {
            continue;
        }
        let idx = query.capture_index_for_name(name).unwrap();
        let q = to_quant(quants[idx as usize]).ok_or("capture with quantifier zero")?;
        captures.push((name.to_string(), q, idx));
    }
    Ok(StanzaQuery {
        query,
        root_index,
        captures,
    })
}

pub struct MatchSet {
    pub matches: Vec<MatchInfo>,
    /// some match had no node for the root capture (quantified or alternative root)
    pub rootless: usize,
    /// a capture had a node count its quantifier does not allow
    pub shape_anomalies: usize,
}

pub fn enumerate(sq: &StanzaQuery, tree: &Tree, source: &str, ti: &TreeInfo) -> MatchSet {
    let mut cursor = QueryCursor::new();
    let mut ms = cursor.matches(&sq.query, tree.root_node(), source.as_bytes());
    let mut out = MatchSet {
        matches: Vec::new(),
        rootless: 0,
        shape_anomalies: 0,
    };
    while let Some(m) = ms.next() {
        let root = m
            .nodes_for_capture_index(sq.root_index)
            .next()
            .and_then(|n| ti.index_of(&n));
        if root.is_none() {
            out.rootless += 1;
        }
        let mut caps = BTreeMap::new();
        let mut raw = BTreeMap::new();
        for (name, q, idx) in &sq.captures {
            let nodes: Vec<usize> = m
                .nodes_for_capture_index(*idx)
                .filter_map(|n| ti.index_of(&n))
                .collect();
            let v = match q {
                Quant::One => {
                    if nodes.len() != 1 {
                        out.shape_anomalies += 1;
                    }
                    nodes.first().map(|i| MVal::Syn(*i)).unwrap_or(MVal::Null)
                }
                Quant::Opt => {
                    if nodes.len() > 1 {
                        out.shape_anomalies += 1;
                    }
                    nodes.first().map(|i| MVal::Syn(*i)).unwrap_or(MVal::Null)
                }
                Quant::Star | Quant::Plus => {
                    MVal::List(nodes.iter().map(|i| MVal::Syn(*i)).collect())
                }
            };
            caps.insert(name.clone(), v);
            raw.insert(name.clone(), nodes);
        }
        out.matches.push(MatchInfo { root, caps, raw });
    }
    out
}

/// Number of matches of the pattern exactly as written (no extra capture): used to detect that
/// appending a root capture changed what tree-sitter reports.
pub fn count_plain(pattern: &str, tree: &Tree, source: &str) -> Option<usize> {
    let query = Query::new(&python(), pattern).ok()?;
    let mut cursor = QueryCursor::new();
    let mut ms = cursor.matches(&query, tree.root_node(), source.as_bytes());
    let mut n = 0;
    while ms.next().is_some() {
        n += 1;
    }
    Some(n)
}
