#!/usr/bin/env python3
"""Validate MANIFEST.json and evidence files against the schemas (needs jsonschema: python3-vt)."""
import json, sys, glob
import jsonschema
m=json.load(open('/verif/MANIFEST.json')); s=json.load(open('/root/.vp/MANIFEST.schema.json'))
jsonschema.validate(m,s); print("manifest ok:", len(m['checks']), "checks")
s=json.load(open('/root/.vp/EVIDENCE.schema.json'))
for f in sorted(glob.glob('/verif/evidence/*.json')):
    e=json.load(open(f)); jsonschema.validate(e,s); print(f, "ok", e['tier'], e['coverage'].get('verdict'), e['coverage']['evaluations'], e['coverage']['distinct_nontrivial'])
props=[json.loads(l)['id'] for l in open('/verif/properties.jsonl')]
claimed={c['property_id'] for c in m['checks']}
na={c['property_id'] for c in m.get('not_applicable',[])}
print("unaccounted:", [p for p in props if p not in claimed and p not in na])
