//! C20 – execution errors identify the failing statement, stanza and matched node.
//! Fault enumeration: exactly one runtime fault is injected into a valid, succeeding program at
//! every block (every nesting context); the reference model tells where it fires; the context
//! chain of the real error (read through the verif-hooks re-exports) must be admissible.

use super::c06::{list_blocks, with_block};
use super::common::*;
use crate::gen::ast::*;
use crate::gen::dsl::{gen_program, GenCfg};
use crate::gen::print::{print_house, print_wild};
use crate::gen::py;
use crate::gen::query::POOL;
use crate::model::interp::Outcome;
use crate::oracle::exec::{self, ExecOpts, Loaded, Real};
use crate::oracle::tree::{parse_python, TreeInfo};
use crate::util::{catch, hash_str, mix, Out, Rng};
use crate::{Prop, RunCfg, Tier};
use serde_json::json;
use std::collections::{BTreeSet, HashMap};
use std::path::Path;

pub struct C20;

#[derive(Clone, Copy, Debug, PartialEq, Eq)]
enum Fault {
    TypeErrorInCall,
    UnknownFunction,
    ConflictingAttribute,
    DuplicateScopedVariable,
    UndefinedEdge,
    EdgeOnNonNode,
    FormatArity,
    TypeErrorViaLet,
    ScanNonString,
    IfNonBoolean,
    ForNonList,
    UndefinedScopedViaLet,
    ConflictAcrossIterations,
    ScopedReadOnGraphNode,
    ScopedDefinitionOnGraphNode,
    ConflictingEdgeAttribute,
    ConflictingNodeAttributeApart,
    ElifNonBoolean,
    TypeErrorInUnusedLet,
    TypeErrorInUnreadScopedDefinition,
    TypeErrorInPrint,
    TypeErrorInShorthandArgument,
    TypeErrorViaTwoLets,
    NodeOnDefinedScopedVariable,
}

const FAULTS: &[Fault] = &[
    Fault::TypeErrorInCall,
    Fault::UnknownFunction,
    Fault::ConflictingAttribute,
    Fault::DuplicateScopedVariable,
    Fault::UndefinedEdge,
    Fault::EdgeOnNonNode,
    Fault::FormatArity,
    Fault::TypeErrorViaLet,
    Fault::ScanNonString,
    Fault::IfNonBoolean,
    Fault::ForNonList,
    Fault::UndefinedScopedViaLet,
    Fault::ConflictAcrossIterations,
    Fault::ScopedReadOnGraphNode,
    Fault::ScopedDefinitionOnGraphNode,
    Fault::ConflictingEdgeAttribute,
    Fault::ConflictingNodeAttributeApart,
    Fault::ElifNonBoolean,
    Fault::TypeErrorInUnusedLet,
    Fault::TypeErrorInUnreadScopedDefinition,
    Fault::TypeErrorInPrint,
    Fault::TypeErrorInShorthandArgument,
    Fault::TypeErrorViaTwoLets,
    Fault::NodeOnDefinedScopedVariable,
];

impl Fault {
    fn name(&self) -> &'static str {
        match self {
            Fault::TypeErrorInCall => "type_error_in_call",
            Fault::UnknownFunction => "unknown_function",
            Fault::ConflictingAttribute => "conflicting_attribute",
            Fault::DuplicateScopedVariable => "duplicate_scoped_variable",
            Fault::UndefinedEdge => "undefined_edge",
            Fault::EdgeOnNonNode => "edge_on_non_node",
            Fault::FormatArity => "format_arity",
            Fault::TypeErrorViaLet => "type_error_via_let",
            Fault::ScanNonString => "scan_non_string",
            Fault::IfNonBoolean => "if_non_boolean",
            Fault::ForNonList => "for_non_list",
            Fault::UndefinedScopedViaLet => "undefined_scoped_variable_via_let",
            Fault::ConflictAcrossIterations => "conflict_across_loop_iterations",
            Fault::ScopedReadOnGraphNode => "scoped_read_on_graph_node",
            Fault::ScopedDefinitionOnGraphNode => "scoped_definition_on_graph_node",
            Fault::ConflictingEdgeAttribute => "conflicting_edge_attribute_with_other_edges_between",
            Fault::ConflictingNodeAttributeApart => "conflicting_node_attribute_with_other_nodes_between",
            Fault::ElifNonBoolean => "elif_non_boolean",
            Fault::TypeErrorInUnusedLet => "type_error_in_unused_let",
            Fault::TypeErrorInUnreadScopedDefinition => "type_error_in_unread_scoped_definition",
            Fault::TypeErrorInPrint => "type_error_in_print_argument",
            Fault::TypeErrorInShorthandArgument => "type_error_in_shorthand_argument",
            Fault::TypeErrorViaTwoLets => "type_error_via_two_lets",
            Fault::NodeOnDefinedScopedVariable => "node_statement_on_a_defined_scoped_variable",
        }
    }
    /// conflicts between two statements
    fn two_sided(&self) -> bool {
        matches!(self, Fault::ConflictingAttribute | Fault::DuplicateScopedVariable | Fault::NodeOnDefinedScopedVariable | Fault::ConflictAcrossIterations | Fault::ConflictingEdgeAttribute | Fault::ConflictingNodeAttributeApart)
    }
}

fn a(name: &str, v: GExpr) -> GAttr {
    GAttr { name: name.into(), value: Some(v) }
}

/// statements to insert; the *last* is the one that fails (for two-sided faults the one before
/// it is the other party)
fn fault_stmts(f: Fault, cap: Option<&str>, shorthand: Option<&str>) -> Option<Vec<GStmt>> {
    let n = || GExpr::var("zq_n");
    Some(match f {
        Fault::TypeErrorInCall => vec![stmt(StmtKind::Node(GVar::u("zq_n"))), stmt(StmtKind::AttrNode(n(), vec![a("zq_a", GExpr::call("plus", vec![GExpr::Int(1), GExpr::str("two")]))]))],
        Fault::UnknownFunction => vec![stmt(StmtKind::Node(GVar::u("zq_n"))), stmt(StmtKind::AttrNode(n(), vec![a("zq_a", GExpr::call("zq-no-such-function", vec![]))]))],
        Fault::ConflictingAttribute => vec![
            stmt(StmtKind::Node(GVar::u("zq_n"))),
            stmt(StmtKind::AttrNode(n(), vec![a("zq_a", GExpr::Int(1))])),
            stmt(StmtKind::AttrNode(n(), vec![a("zq_b", GExpr::Int(0)), a("zq_a", GExpr::Int(2))])),
        ],
        Fault::DuplicateScopedVariable => {
            let c = cap?;
            vec![stmt(StmtKind::Let(GVar::s(GExpr::cap(c), "zq_dup"), GExpr::Int(1))), stmt(StmtKind::Let(GVar::s(GExpr::cap(c), "zq_dup"), GExpr::Int(2)))]
        }
        // a `node` statement can fail too: the scoped variable it would define exists already
        Fault::NodeOnDefinedScopedVariable => {
            let c = cap?;
            vec![stmt(StmtKind::Let(GVar::s(GExpr::cap(c), "zq_nd"), GExpr::Int(1))), stmt(StmtKind::Node(GVar::s(GExpr::cap(c), "zq_nd")))]
        }
        Fault::UndefinedEdge => vec![stmt(StmtKind::Node(GVar::u("zq_n"))), stmt(StmtKind::Node(GVar::u("zq_m"))), stmt(StmtKind::AttrEdge(n(), GExpr::var("zq_m"), vec![a("zq_a", GExpr::Int(1))]))],
        Fault::EdgeOnNonNode => vec![stmt(StmtKind::Node(GVar::u("zq_n"))), stmt(StmtKind::Edge(n(), GExpr::str("not a node")))],
        Fault::FormatArity => vec![stmt(StmtKind::Node(GVar::u("zq_n"))), stmt(StmtKind::AttrNode(n(), vec![a("zq_a", GExpr::call("format", vec![GExpr::str("{} {}"), GExpr::Int(1)]))]))],
        // eagerly evaluated positions: in lazy mode these fail while matches are collected
        Fault::ScanNonString => vec![stmt(StmtKind::Scan(GExpr::call("plus", vec![GExpr::Int(424242), GExpr::Int(1)]), vec![GArm { regex: "a".into(), stmts: vec![], loc: Loc::default() }]))],
        Fault::IfNonBoolean => vec![stmt(StmtKind::If(vec![GIfArm { conds: vec![GCond { kind: CondKind::Bool, expr: GExpr::call("plus", vec![GExpr::Int(424242), GExpr::Int(1)]), loc: Loc::default() }], stmts: vec![], loc: Loc::default() }]))],
        // the failing clause sits in a later arm: the failing statement is still the `if`
        Fault::ElifNonBoolean => vec![stmt(StmtKind::If(vec![
            GIfArm { conds: vec![GCond { kind: CondKind::Bool, expr: GExpr::call("eq", vec![GExpr::Int(424242), GExpr::Int(1)]), loc: Loc::default() }], stmts: vec![], loc: Loc::default() },
            GIfArm { conds: vec![GCond { kind: CondKind::Bool, expr: GExpr::True, loc: Loc::default() }, GCond { kind: CondKind::Bool, expr: GExpr::call("plus", vec![GExpr::Int(424242), GExpr::Int(1)]), loc: Loc::default() }], stmts: vec![], loc: Loc::default() },
            GIfArm { conds: vec![], stmts: vec![], loc: Loc::default() },
        ]))],
        // values nobody reads: lazy mode forces them in its final sweep
        Fault::TypeErrorInUnusedLet => vec![stmt(StmtKind::Node(GVar::u("zq_n"))), stmt(StmtKind::Let(GVar::u("zq_v"), GExpr::call("plus", vec![GExpr::Int(1), GExpr::str("two")])))],
        Fault::TypeErrorInUnreadScopedDefinition => {
            let c = cap?;
            vec![stmt(StmtKind::Node(GVar::u("zq_n"))), stmt(StmtKind::Let(GVar::s(GExpr::cap(c), "zq_unread"), GExpr::call("plus", vec![GExpr::Int(1), GExpr::str("two")])))]
        }
        Fault::TypeErrorInShorthandArgument => {
            let sh = shorthand?;
            vec![stmt(StmtKind::Node(GVar::u("zq_n"))), stmt(StmtKind::AttrNode(n(), vec![GAttr { name: sh.to_string(), value: Some(GExpr::call("plus", vec![GExpr::Int(424242), GExpr::str("two")])) }]))]
        }
        Fault::TypeErrorInPrint => vec![stmt(StmtKind::Node(GVar::u("zq_n"))), stmt(StmtKind::Print(vec![GExpr::str("zq"), GExpr::call("plus", vec![GExpr::Int(424242), GExpr::str("two")])]))],
        Fault::ForNonList => vec![stmt(StmtKind::Let(GVar::u("zq_l"), GExpr::List(vec![GExpr::Int(1)]))), stmt(StmtKind::For(GUVar::new("zq_x"), GExpr::Set(vec![GExpr::var("zq_l")]), vec![]))],
        Fault::UndefinedScopedViaLet => {
            let c = cap?;
            vec![
                stmt(StmtKind::Let(GVar::u("zq_v"), GExpr::scoped(GExpr::cap(c), "zq_never_defined"))),
                stmt(StmtKind::Node(GVar::u("zq_n"))),
                stmt(StmtKind::AttrNode(n(), vec![a("zq_a", GExpr::var("zq_v"))])),
            ]
        }
        Fault::ConflictAcrossIterations => vec![
            stmt(StmtKind::Node(GVar::u("zq_n"))),
            stmt(StmtKind::For(
                GUVar::new("zq_x"),
                GExpr::List(vec![GExpr::Int(1), GExpr::Int(2), GExpr::Int(3)]),
                vec![stmt(StmtKind::AttrNode(n(), vec![a("zq_a", GExpr::var("zq_x"))])), stmt(StmtKind::Let(GVar::u("zq_after"), GExpr::var("zq_x")))],
            )),
        ],
        // the same attribute name is set on neighbouring edges / nodes between the two conflicting
        // statements: the conflict must still name exactly those two
        Fault::ConflictingEdgeAttribute => {
            let v = |x: &str| GExpr::var(x);
            vec![
                stmt(StmtKind::Node(GVar::u("zq_n"))),
                stmt(StmtKind::Node(GVar::u("zq_m"))),
                stmt(StmtKind::Node(GVar::u("zq_o"))),
                stmt(StmtKind::Edge(n(), v("zq_m"))),
                stmt(StmtKind::Edge(n(), v("zq_o"))),
                stmt(StmtKind::AttrEdge(n(), v("zq_m"), vec![a("zq_a", GExpr::Int(1))])),
                stmt(StmtKind::AttrEdge(n(), v("zq_o"), vec![a("zq_a", GExpr::Int(5))])),
                stmt(StmtKind::AttrEdge(n(), v("zq_m"), vec![a("zq_a", GExpr::Int(2))])),
            ]
        }
        Fault::ConflictingNodeAttributeApart => vec![
            stmt(StmtKind::Node(GVar::u("zq_n"))),
            stmt(StmtKind::Node(GVar::u("zq_m"))),
            stmt(StmtKind::AttrNode(n(), vec![a("zq_a", GExpr::Int(1))])),
            stmt(StmtKind::AttrNode(GExpr::var("zq_m"), vec![a("zq_a", GExpr::Int(5))])),
            stmt(StmtKind::AttrNode(n(), vec![a("zq_a", GExpr::Int(2))])),
        ],
        Fault::ScopedReadOnGraphNode => vec![
            stmt(StmtKind::Node(GVar::u("zq_n"))),
            stmt(StmtKind::Node(GVar::u("zq_m"))),
            stmt(StmtKind::AttrNode(GExpr::var("zq_m"), vec![a("zq_a", GExpr::scoped(n(), "zq_tag"))])),
        ],
        Fault::ScopedDefinitionOnGraphNode => vec![stmt(StmtKind::Node(GVar::u("zq_n"))), stmt(StmtKind::Let(GVar::s(n(), "zq_tag"), GExpr::Int(1)))],
        // the failing value is reached through a second variable: the failing statement is still
        // the `let` that holds the ill-typed call, not the one that merely uses its variable
        Fault::TypeErrorViaTwoLets => vec![
            stmt(StmtKind::Node(GVar::u("zq_n"))),
            stmt(StmtKind::Let(GVar::u("zq_v"), GExpr::call("not", vec![GExpr::Int(3)]))),
            stmt(StmtKind::Let(GVar::u("zq_w"), GExpr::call("and", vec![GExpr::True, GExpr::var("zq_v")]))),
            stmt(StmtKind::AttrNode(n(), vec![a("zq_a", GExpr::var("zq_w"))])),
        ],
        Fault::TypeErrorViaLet => vec![stmt(StmtKind::Node(GVar::u("zq_n"))), stmt(StmtKind::Let(GVar::u("zq_v"), GExpr::call("not", vec![GExpr::Int(3)]))), stmt(StmtKind::AttrNode(n(), vec![a("zq_a", GExpr::var("zq_v"))]))],
    })
}

/// (failing, other) positions among the inserted marker statements in preorder
fn fault_positions(f: Fault) -> (usize, Option<usize>) {
    match f {
        Fault::TypeErrorInCall | Fault::UnknownFunction | Fault::FormatArity | Fault::EdgeOnNonNode => (1, None),
        Fault::ConflictingAttribute => (2, Some(1)),
        Fault::DuplicateScopedVariable | Fault::NodeOnDefinedScopedVariable => (1, Some(0)),
        Fault::UndefinedEdge => (2, None),
        // the `let` holds the failing value; strict fails there, lazy when the thunk is forced
        // (and reports the statement that created it)
        Fault::TypeErrorViaLet | Fault::TypeErrorViaTwoLets => (1, None),
        Fault::UndefinedScopedViaLet => (0, None),
        Fault::ScanNonString | Fault::IfNonBoolean => (0, None),
        Fault::ForNonList => (1, None),
        // node, for, attr, let: the attr statement conflicts with itself in the next iteration
        Fault::ConflictAcrossIterations => (2, Some(2)),
        Fault::ScopedReadOnGraphNode => (2, None),
        Fault::ScopedDefinitionOnGraphNode => (1, None),
        Fault::ConflictingEdgeAttribute => (7, Some(5)),
        Fault::ConflictingNodeAttributeApart => (4, Some(2)),
        Fault::ElifNonBoolean => (0, None),
        Fault::TypeErrorInUnusedLet | Fault::TypeErrorInUnreadScopedDefinition | Fault::TypeErrorInPrint | Fault::TypeErrorInShorthandArgument => (1, None),
    }
}

fn is_marker(s: &GStmt) -> bool {
    fn e(x: &GExpr) -> bool {
        match x {
            GExpr::Var(GVar::Unscoped(u)) => u.name.starts_with("zq_"),
            GExpr::Var(GVar::Scoped(b, n, _)) => n.starts_with("zq_") || e(b),
            GExpr::Call(f, args) => f.starts_with("zq-") || args.iter().any(e),
            GExpr::Int(424242) => true,
            GExpr::List(xs) | GExpr::Set(xs) => xs.iter().any(e),
            _ => false,
        }
    }
    let v = |v: &GVar| match v {
        GVar::Unscoped(u) => u.name.starts_with("zq_"),
        GVar::Scoped(b, n, _) => n.starts_with("zq_") || e(b),
    };
    match &s.kind {
        StmtKind::Node(x) => v(x),
        StmtKind::Let(x, y) | StmtKind::Var(x, y) | StmtKind::Set(x, y) => v(x) || e(y),
        StmtKind::Edge(x, y) => e(x) || e(y),
        StmtKind::AttrNode(x, attrs) => e(x) || attrs.iter().any(|at| at.name.starts_with("zq_")),
        StmtKind::AttrEdge(x, y, attrs) => e(x) || e(y) || attrs.iter().any(|at| at.name.starts_with("zq_")),
        StmtKind::Scan(x, _) => e(x),
        StmtKind::If(arms) => arms.iter().any(|a| a.conds.iter().any(|c| e(&c.expr))),
        StmtKind::For(v, x, _) => v.name.starts_with("zq_") || e(x),
        StmtKind::Print(xs) => xs.iter().any(e),
    }
}

impl Prop for C20 {
    fn id(&self) -> &'static str {
        "C20"
    }
    fn cases(&self, cfg: &RunCfg) -> usize {
        match cfg.tier {
            Tier::Quick => 150,
            Tier::Thorough => 8000,
        }
    }
    fn run_case(&self, cfg: &RunCfg, _idx: usize, rng: &mut Rng, out: &mut Out) {
        let mut gcfg = GenCfg::order_insensitive();
        gcfg.fault_pct = 0;
        gcfg.max_stanzas = 4;
        if cfg.tier == Tier::Thorough && rng.chance(1, 5) {
            // deeper blocks: the fault is injected at every block, down to depth 6
            gcfg.max_depth = 6;
            out.feat("deep_bounds(depth<=6)");
        }
        gcfg.ast_mutation_pct = 0;
        gcfg.print = false;
        let prog = gen_program(rng, &gcfg);
        let source = if rng.chance(1, 3) { "def f(a, b):\n    x = g(a, b)\n    y = x.z\n    return [x, y, f(1, 2)]\nclass C:\n    k = f(3, 4)\n".to_string() } else { py::gen_any_source(rng, 10, 5) };
        // now and then with carriage-return line-feed line ends
        let source = if rng.chance(1, 8) && !source.contains('\r') {
            out.feat("source_with_crlf_line_ends");
            source.replace('\n', "\r\n")
        } else {
            source
        };
        let tree = parse_python(&source);
        let ti = TreeInfo::new(&tree);
        if ti.anomaly.is_some() {
            out.inconclusive("tree-sitter anomaly");
            return;
        }
        let mut base = prog.file.clone();
        base.number();
        // the base program must succeed (so that the injected fault is the only one)
        {
            let prep = match prepare(&base, &tree, &source, &ti) {
                Ok(p) => p,
                Err(_) => return,
            };
            if prep.rootless > 0 || prep.shape_anomalies > 0 {
                return;
            }
            match run_model(&base, &ti, &source, &prog.globals, &prep.matches, None) {
                Ok((Outcome::Graph(_), _)) => {}
                _ => {
                    out.feat("skipped:base_program_fails");
                    return;
                }
            }
        }
        let functions = stdlib();
        let shorthand_name: Option<String> = base.shorthands().first().map(|s| s.name.clone());
        let blocks = list_blocks(&base);
        let wild = rng.chance(1, 3);
        for (bi, (si, depth, kind)) in blocks.iter().enumerate() {
            // one fault kind per block, rotating
            let fault = FAULTS[(bi + rng.below(FAULTS.len())) % FAULTS.len()];
            let stanza_pool = base.stanzas()[*si].pool;
            let cap = stanza_pool.and_then(|p| POOL[p].caps.iter().find(|c| c.quant.is_empty()).map(|c| c.name));
            let stmts = match fault_stmts(fault, cap, shorthand_name.as_deref()) {
                Some(s) => s,
                None => continue,
            };
            let mut f = base.clone();
            let pos_seed = rng.below(1000);
            let mut stmts_opt = Some(stmts);
            with_block(&mut f, bi, &mut |b: &mut Vec<GStmt>| {
                let pos = pos_seed % (b.len() + 1);
                for (k, x) in stmts_opt.take().unwrap_or_default().into_iter().enumerate() {
                    b.insert(pos + k, x);
                }
            });
            f.number();
            let text = if wild { print_wild(&mut f, rng).0 } else { print_house(&mut f) };
            let prep = match prepare(&f, &tree, &source, &ti) {
                Ok(p) => p,
                Err(_) => continue,
            };
            let model = match run_model(&f, &ti, &source, &prog.globals, &prep.matches, None) {
                Ok((m, _)) => m,
                Err(_) => continue,
            };
            let me = match model {
                Outcome::Graph(_) => {
                    out.feat("skipped:fault_in_block_that_never_runs");
                    continue;
                }
                Outcome::Error(e) => e,
            };
            // statement table: id -> (location, is marker)
            let mut loc_of: HashMap<usize, Loc> = HashMap::new();
            let mut markers: Vec<usize> = Vec::new();
            f.walk_stmts(&mut |_si, _d, s| {
                loc_of.insert(s.id, s.loc);
                if is_marker(s) {
                    markers.push(s.id);
                }
            });
            if !markers.contains(&me.stmt_id) {
                out.feat("skipped:another_statement_fails_first");
                continue;
            }
            let (fpos, opos) = fault_positions(fault);
            if fpos >= markers.len() || opos.map(|o| o >= markers.len()).unwrap_or(false) {
                out.inconclusive("harness: marker statements not found");
                continue;
            }
            let failing_id = markers[fpos];
            let other_id = opos.map(|o| markers[o]);
            let stanza_loc = f.stanzas()[*si].loc;
            let roots: BTreeSet<(String, (usize, usize))> = prep.matches[*si].iter().filter_map(|m| m.root).map(|r| (ti.nodes[r].kind.to_string(), ti.nodes[r].start)).collect();
            let enclosing: Vec<Loc> = me.stmt_chain.iter().filter_map(|id| loc_of.get(id).copied()).collect();
            let file = match exec::load(&text) {
                Loaded::Ok(x) => x,
                _ => {
                    out.feat("skipped:faulty_program_rejected_at_load");
                    continue;
                }
            };
            for lazy in [false, true] {
                let mode = if lazy { "lazy" } else { "strict" };
                let rep = exec::execute(&file, &tree, &source, &ti, &prog.globals, &functions, &ExecOpts::new(lazy));
                out.eval();
                let case = || {
                    let mut c = case_json(&text, &source, &prog.globals);
                    c["fault"] = json!(fault.name());
                    c["block"] = json!(kind.name());
                    c["depth"] = json!(depth);
                    c["mode"] = json!(mode);
                    c["observed"] = json!(rep.real.brief());
                    c
                };
                let (info, err) = match &rep.real {
                    Real::Error(i, e) => (i, e),
                    Real::Graph(_) => {
                        out.violation(&format!("C20:fault-not-reported:{}:{}", mode, fault.name()), "execution succeeded although the injected fault fires", case());
                        return;
                    }
                    Real::Panic(p) => {
                        out.violation(&format!("C20:panic:{}", mode), &format!("{}: {}", p.location, p.message), case());
                        return;
                    }
                    Real::Unreadable(s) => {
                        out.violation("C20:unreadable-graph", s, case());
                        return;
                    }
                };
                if info.contexts.is_empty() {
                    out.violation(&format!("C20:no-statement-context:{}:{}", mode, fault.name()), &format!("the error has no statement context: {}", crate::util::trunc(&info.display, 300)), case());
                    return;
                }
                // the outermost statement context on the chain is the one users see first
                let ctx = &info.contexts[0];
                for c in ctx {
                    if c.stanza_loc != (stanza_loc.row, stanza_loc.col) {
                        out.violation(&format!("C20:wrong-stanza:{}:{}", mode, fault.name()), &format!("context names the stanza at {:?}, the failing stanza starts at {:?}", c.stanza_loc, stanza_loc), case());
                        return;
                    }
                    if !roots.contains(&(c.node_kind.clone(), c.source_loc)) {
                        out.violation(&format!("C20:wrong-matched-node:{}:{}", mode, fault.name()), &format!("context names a ({}) node at {:?}; the stanza's matches are rooted at {:?}", c.node_kind, c.source_loc, roots.iter().take(5).collect::<Vec<_>>()), case());
                        return;
                    }
                }
                // the statement text of a context ends with the position of that very statement
                // ("… at (row, column)", 1-based): the plain rendering has no other source for it
                for c in ctx {
                    let want = format!("at ({}, {})", c.statement_loc.0 + 1, c.statement_loc.1 + 1);
                    if !c.statement.trim_end().ends_with(&want) {
                        out.violation(&format!("C20:statement-text-cites-another-position:{}:{}", mode, fault.name()), &format!("the context's statement location is {:?}, its statement text is {:?}", c.statement_loc, crate::util::trunc(&c.statement, 200)), case());
                        return;
                    }
                }
                let named: Vec<(usize, usize)> = ctx.iter().map(|c| c.statement_loc).collect();
                let fl = loc_of[&failing_id];
                let fl = (fl.row, fl.col);
                let admissible_single: Vec<(usize, usize)> = if lazy { enclosing.iter().map(|l| (l.row, l.col)).chain(std::iter::once(fl)).collect() } else { vec![fl] };
                if lazy && fault.two_sided() {
                    let ol = loc_of[&other_id.unwrap()];
                    let ol = (ol.row, ol.col);
                    if named.len() != 2 {
                        out.violation(&format!("C20:conflict-names-one-statement:{}", fault.name()), &format!("a conflict found during lazy evaluation names {} statement(s): {:?}", named.len(), named), case());
                        return;
                    }
                    let mut got = named.clone();
                    got.sort();
                    let mut want = vec![fl, ol];
                    want.sort();
                    let enc: Vec<(usize, usize)> = enclosing.iter().map(|l| (l.row, l.col)).collect();
                    let each_ok = got.iter().all(|g| *g == fl || *g == ol || enc.contains(g));
                    if got != want && !each_ok {
                        out.violation(&format!("C20:conflict-names-wrong-statements:{}", fault.name()), &format!("conflict names {:?}, the two statements are at {:?}", got, want), case());
                        return;
                    }
                    out.feat("two_sided_conflict_named_both");
                } else {
                    if named.len() != 1 || !admissible_single.contains(&named[0]) {
                        out.violation(&format!("C20:wrong-statement:{}:{}", mode, fault.name()), &format!("context names the statement(s) at {:?}; the failing statement is at {:?} (enclosing: {:?})", named, fl, enclosing), case());
                        return;
                    }
                    if named[0] != fl {
                        out.feat("lazy_named_enclosing_statement");
                    }
                }
                // pretty rendering shows the cited lines
                let pretty = catch(|| format!("{}", err.display_pretty(Path::new("src/test.py"), &source, Path::new("rules.tsg"), &text)));
                out.eval();
                match pretty {
                    Err(p) => {
                        out.violation(&format!("C20:pretty-panic:{}", mode), &format!("{}: {}", p.location, p.message), case());
                        return;
                    }
                    Ok(p) => {
                        let tsg_lines: Vec<&str> = text.lines().collect();
                        let src_lines: Vec<&str> = source.lines().collect();
                        for c in ctx {
                            for (what, row, lines) in [("statement", c.statement_loc.0, &tsg_lines), ("stanza", c.stanza_loc.0, &tsg_lines), ("source", c.source_loc.0, &src_lines)] {
                                if let Some(l) = lines.get(row) {
                                    if !l.trim().is_empty() && !p.contains(*l) {
                                        out.violation(&format!("C20:pretty-misses-line:{}:{}", mode, what), &format!("the pretty rendering does not show the cited {} line {:?}", what, l), case());
                                        return;
                                    }
                                }
                            }
                        }
                    }
                }
                out.feat(&format!("checked:{}:{}", mode, fault.name()));
                out.feat(&format!("fault_in:{}@{}", kind.name(), (*depth).min(4)));
            }
            out.nontrivial(mix(&[hash_str(&text), hash_str(&source)]));
            if prep.matches[*si].len() >= 2 {
                out.feat("stanza_with_several_matches");
            }
            if out.want_sample() && *depth >= 1 && text.len() < 2500 {
                let mut c = case_json(&text, &source, &prog.globals);
                c["fault"] = json!(fault.name());
                out.sample(c);
            }
        }
        // self-conflict across matches: one statement, two matches, two contexts (lazy)
        self_conflict(rng, out);
    }
}

fn self_conflict(rng: &mut Rng, out: &mut Out) {
    let text = "inherit .scope\n(module) @m { node @m.scope }\n(identifier) @id {\n  attr (@id.scope) seen = (source-text @id)\n}\n";
    let a = *rng.pick(&["alpha", "x", "foo"]);
    let source = format!("{} = 1\n{}_other = 2\n", a, a);
    let tree = parse_python(&source);
    let ti = TreeInfo::new(&tree);
    let file = match exec::load(text) {
        Loaded::Ok(f) => f,
        _ => return,
    };
    let functions = stdlib();
    let globals = std::collections::BTreeMap::new();
    let rep = exec::execute(&file, &tree, &source, &ti, &globals, &functions, &ExecOpts::new(true));
    out.eval();
    if let Real::Error(info, _) = &rep.real {
        if info.root == "DuplicateAttribute" {
            let n = info.contexts.first().map(|c| c.len()).unwrap_or(0);
            if n != 2 {
                out.violation("C20:conflict-names-one-statement:self_conflict_across_matches", &format!("one statement conflicting with itself across two matches is reported with {} context(s)", n), json!({"dsl": text, "source": source}));
                return;
            }
            let locs: BTreeSet<(usize, usize)> = info.contexts[0].iter().map(|c| c.source_loc).collect();
            if locs.len() != 2 {
                out.violation("C20:conflict-names-one-match:self_conflict_across_matches", "both sides of the conflict name the same matched node", json!({"dsl": text, "source": source}));
                return;
            }
            out.feat("self_conflict_across_matches_names_both");
        }
    }
}
