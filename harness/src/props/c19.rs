//! C19 – the command-line tool reports exactly what the library computes.
//! The expected outcome is computed in-process through the library; the real binary (built from
//! /repo with `--features cli`) runs as a subprocess with a private tree-sitter configuration.
//! Environment: TSG_CLI (binary), TSG_CLI_HOME (directory with config/ and cache/), set by
//! bin/check.

use super::common::*;
use crate::gen::dsl::GenCfg;
use crate::gen::py;
use crate::oracle::tree::{parse_python, python};
use crate::util::{catch, hash_str, mix, Out, Rng};
use crate::{Prop, RunCfg, Tier};
use serde_json::{json, Value as J};
use std::process::Command;
use tree_sitter_graph::ast::File;
use tree_sitter_graph::functions::Functions;
use tree_sitter_graph::parse_error::ParseError;
use tree_sitter_graph::{ExecutionConfig, Identifier, NoCancellation, Variables};

pub struct C19;

#[derive(Debug, Clone)]
enum Expected {
    /// exit 0 with this pretty text / this JSON
    Ok { pretty: String, json: J },
    /// exit non-zero; the `path:row:column:` citations of the library's own pretty rendering of
    /// the error (empty when the failure is not a library error)
    Fail(&'static str, Vec<String>),
}

/// the `path:row:column:` tokens of a pretty-rendered diagnostic that cite one of the two files
fn citations(rendered: &str, paths: &[&str]) -> Vec<String> {
    let mut v = Vec::new();
    for p in paths {
        if let Ok(re) = regex::Regex::new(&format!(r"{}:\d+:\d+:", regex::escape(p))) {
            for m in re.find_iter(rendered) {
                let t = m.as_str().to_string();
                if !v.contains(&t) {
                    v.push(t);
                }
            }
        }
    }
    v
}

/// drop address-derived syntax-node ids, sort set elements canonically
fn normalise(j: &J) -> J {
    match j {
        J::Object(o) => {
            if o.get("type").and_then(|t| t.as_str()) == Some("syntaxNode") {
                return json!({"type": "syntaxNode"});
            }
            let mut m = serde_json::Map::new();
            for (k, v) in o {
                m.insert(k.clone(), normalise(v));
            }
            if o.get("type").and_then(|t| t.as_str()) == Some("set") {
                if let Some(J::Array(xs)) = m.get("values").cloned() {
                    let mut ys: Vec<(String, J)> = xs.into_iter().map(|x| (x.to_string(), x)).collect();
                    ys.sort_by(|a, b| a.0.cmp(&b.0));
                    m.insert("values".into(), J::Array(ys.into_iter().map(|x| x.1).collect()));
                }
            }
            J::Object(m)
        }
        J::Array(xs) => J::Array(xs.iter().map(normalise).collect()),
        other => other.clone(),
    }
}

fn expected(text: &str, source: &str, globals: &[(String, String)], lazy: bool, allow_parse_errors: bool, tsg_path: &str, src_path: &str) -> Expected {
    // globals given twice are rejected by the variable set
    let mut vars = Variables::new();
    for (k, v) in globals {
        if vars.add(Identifier::from(k.as_str()), v.clone().into()).is_err() {
            return Expected::Fail("duplicate --global", vec![]);
        }
    }
    let file = match catch(|| File::from_str(python(), text)) {
        Ok(Ok(f)) => f,
        Ok(Err(e)) => {
            let shown = catch(|| e.display_pretty(std::path::Path::new(tsg_path), text).to_string()).unwrap_or_default();
            return Expected::Fail("DSL file rejected", citations(&shown, &[tsg_path]));
        }
        Err(_) => return Expected::Fail("library panicked while loading", vec![]),
    };
    let tree = parse_python(source);
    if !allow_parse_errors {
        let errs = ParseError::all(&tree);
        if !errs.is_empty() {
            // the first of them at least is shown, however many the tool chooses to list
            let shown = catch(|| errs[0].display_pretty(std::path::Path::new(src_path), source).to_string()).unwrap_or_default();
            return Expected::Fail("source has syntax errors", citations(&shown, &[src_path]));
        }
    }
    let functions = Functions::stdlib();
    let r = catch(|| {
        let config = ExecutionConfig::new(&functions, &vars).lazy(lazy);
        file.execute(&tree, source, &config, &NoCancellation).map(|g| (g.pretty_print().to_string(), serde_json::to_value(&g).unwrap_or(J::Null)))
    });
    match r {
        Ok(Ok((pretty, json))) => Expected::Ok { pretty, json },
        Ok(Err(e)) => {
            let shown = catch(|| e.display_pretty(std::path::Path::new(src_path), source, std::path::Path::new(tsg_path), text).to_string()).unwrap_or_default();
            Expected::Fail("execution failed", citations(&shown, &[tsg_path, src_path]))
        }
        Err(_) => Expected::Fail("library panicked while executing", vec![]),
    }
}

impl Prop for C19 {
    fn id(&self) -> &'static str {
        "C19"
    }
    fn cases(&self, cfg: &RunCfg) -> usize {
        match cfg.tier {
            Tier::Quick => 130,
            Tier::Thorough => 6000,
        }
    }
    fn run_case(&self, cfg: &RunCfg, idx: usize, rng: &mut Rng, out: &mut Out) {
        let cli = match std::env::var("TSG_CLI") {
            Ok(p) => p,
            Err(_) => {
                out.inconclusive("harness: TSG_CLI not set");
                return;
            }
        };
        let home = std::env::var("TSG_CLI_HOME").unwrap_or_else(|_| "/verif/work/cli_home".into());
        let dir = format!("{}/tmp/shard{}_{}", home, cfg.shard, std::process::id());
        let _ = std::fs::create_dir_all(&dir);
        // inputs
        let mut gcfg = GenCfg::order_insensitive();
        gcfg.fault_pct = 15;
        // `print` writes to stderr: stdout stays exactly the graph
        gcfg.print = rng.chance(1, 2);
        gcfg.max_stanzas = 4;
        let case = build_case(rng, &gcfg, 15, 0, 1);
        let mut text = case.text.clone();
        let which = rng.below(10);
        if which == 0 {
            // a rejected DSL file
            text = format!("{}\n(identifier) @unused_capture {{ node n }}\n", text);
        } else if which == 1 {
            text.push_str("\n(module) { let = }\n");
        } else if which == 2 && rng.chance(1, 2) {
            // a file without any stanza: still subject to every gate
            text = (*rng.pick(&["", "; only a comment\n", "global zq_unused_global = \"d\"\n", "attribute zq_sh = v => a = v\n", "inherit .scope\n"])).to_string();
            out.feat("dsl_without_stanzas");
        }
        // layout at the very beginning and end of the file: blank lines, an indented first line,
        // no final line feed (positions in diagnostics count from the file's first byte)
        match rng.below(6) {
            0 => text = format!("\n\n{}", text),
            1 => text = format!("   {}", text),
            2 => text = format!("\n \n\t{}", text.trim_end()),
            _ => {}
        }
        let source = py::gen_any_source(rng, 8, 30);
        if text.contains("print ") {
            out.feat("dsl_with_print_statements");
        }
        let lazy = rng.chance(1, 2);
        let as_json = rng.chance(1, 2);
        let with_output = rng.chance(1, 3);
        let quiet = rng.chance(1, 3);
        let allow = rng.chance(1, 2);
        // --global: strings for declared globals, sometimes missing / duplicated / with '='
        let mut globals: Vec<(String, String)> = Vec::new();
        for g in case.prog.file.globals() {
            if rng.chance(4, 5) {
                let v = (*rng.pick(&["value", "a=b", "src/pkg/mod.py", "", "é x", "=", "k=v=w", "a,b", "1,g0=2", "(x, y)", "trailing,"])).to_string();
                globals.push((g.name.clone(), v));
            }
        }
        if rng.chance(1, 12) {
            if let Some(first) = globals.first().cloned() {
                globals.push((first.0, "again".into()));
            } else {
                globals.push(("extra".into(), "1".into()));
                globals.push(("extra".into(), "2".into()));
            }
        }
        if rng.chance(1, 6) {
            globals.push(("unused_global".into(), "x=y".into()));
        }
        let malformed_global = rng.chance(1, 25);
        let tsg_path = format!("{}/rules.tsg", dir);
        let src_path = format!("{}/source.py", dir);
        let out_path = format!("{}/out.json", dir);
        let _ = std::fs::remove_file(&out_path);
        // sometimes the --output file already exists and is longer than what will be written
        let stale = "stale content of an earlier run ".repeat(20_000);
        let pre_existing = with_output && rng.chance(1, 3);
        if pre_existing {
            let _ = std::fs::write(&out_path, &stale);
        }
        if std::fs::write(&tsg_path, &text).is_err() || std::fs::write(&src_path, &source).is_err() {
            out.inconclusive("harness: cannot write temporary files");
            return;
        }
        let mut args: Vec<String> = vec![tsg_path.clone(), src_path.clone()];
        if lazy {
            args.push("--lazy".into());
        }
        if as_json {
            args.push("--json".into());
        }
        if with_output {
            args.push("--output".into());
            args.push(out_path.clone());
        }
        if quiet {
            args.push(if rng.chance(1, 2) { "--quiet".into() } else { "-q".into() });
        }
        if allow {
            args.push("--allow-parse-errors".into());
        }
        for (k, v) in &globals {
            args.push("--global".into());
            args.push(format!("{}={}", k, v));
        }
        if malformed_global {
            args.push("--global".into());
            args.push("no_equals_sign".into());
        }
        // argument order does not matter to the option parser
        if rng.chance(1, 3) {
            let tail = args.split_off(2);
            let mut t = tail;
            // keep option/value pairs together
            let mut groups: Vec<Vec<String>> = Vec::new();
            let mut i = 0;
            while i < t.len() {
                if t[i] == "--global" || t[i] == "--output" {
                    groups.push(vec![t[i].clone(), t[i + 1].clone()]);
                    i += 2;
                } else {
                    groups.push(vec![t[i].clone()]);
                    i += 1;
                }
            }
            // globals must keep their relative order (duplicates!)
            let (gl, mut others): (Vec<_>, Vec<_>) = groups.into_iter().partition(|g| g[0] == "--global");
            rng.shuffle(&mut others);
            t = others.into_iter().chain(gl.into_iter()).flatten().collect();
            args.extend(t);
        }
        let want = if with_output && !as_json {
            Expected::Fail("--output without --json", vec![])
        } else if malformed_global {
            Expected::Fail("--global without =", vec![])
        } else {
            expected(&text, &source, &globals, lazy, allow, &tsg_path, &src_path)
        };
        let run = Command::new(&cli)
            .args(&args)
            .env("XDG_CONFIG_HOME", format!("{}/config", home))
            .env("XDG_CACHE_HOME", format!("{}/cache", home))
            .env("HOME", &home)
            .env_remove("RUST_LOG")
            .current_dir(&dir)
            .output();
        out.eval();
        let o = match run {
            Ok(o) => o,
            Err(e) => {
                out.inconclusive(&format!("harness: cannot run the CLI: {}", e));
                return;
            }
        };
        let stdout = String::from_utf8_lossy(&o.stdout).to_string();
        let stderr = String::from_utf8_lossy(&o.stderr).to_string();
        let code = o.status.code();
        let file_content = std::fs::read_to_string(&out_path).ok();
        let cj = || json!({"dsl": text, "source": source, "args": args[2..].to_vec(), "exit": code, "stdout": crate::util::trunc(&stdout, 1500), "stderr": crate::util::trunc(&stderr, 800), "output_file": file_content.as_ref().map(|s| crate::util::trunc(s, 500)), "expected": match &want { Expected::Ok { .. } => "success".to_string(), Expected::Fail(w, _) => format!("failure: {}", w) }});
        if code.is_none() {
            out.violation("C19:cli-killed-by-signal", &format!("the CLI died: {:?}", o.status), cj());
            return;
        }
        if stderr.contains("panicked at") {
            out.violation("C19:cli-panic", &format!("the CLI panicked: {}", crate::util::trunc(&stderr, 300)), cj());
            return;
        }
        match &want {
            Expected::Fail(why, cites) => {
                if code == Some(0) {
                    out.violation(&format!("C19:exit-0-on-failure:{}", why.replace(' ', "-")), &format!("the CLI exited 0 although {}", why), cj());
                    return;
                }
                if !stdout.trim().is_empty() {
                    out.violation("C19:graph-printed-on-failure", &format!("non-zero exit ({}) but stdout is not empty", why), cj());
                    return;
                }
                if pre_existing && file_content.as_deref() == Some(stale.as_str()) {
                    // untouched: fine
                } else if file_content.as_ref().map(|s| !s.trim().is_empty()).unwrap_or(false) {
                    out.violation("C19:output-file-written-on-failure", &format!("non-zero exit ({}) but the output file has content", why), cj());
                    return;
                }
                if stderr.trim().is_empty() {
                    out.violation("C19:no-diagnostic", &format!("non-zero exit ({}) without any diagnostic on stderr", why), cj());
                    return;
                }
                // the diagnostic is the library's: every file position the library's own pretty
                // rendering of this error cites is cited on stderr
                if !cites.is_empty() {
                    if let Some(missing) = cites.iter().find(|c| !stderr.contains(c.as_str())) {
                        let mut c = cj();
                        c["library_cites"] = json!(cites);
                        out.violation(&format!("C19:diagnostic-cites-another-position:{}", why.replace(' ', "-")), &format!("failing run ({}): the library's rendering of the error cites {} but the CLI's diagnostic does not", why, missing.rsplitn(4, ':').take(3).collect::<Vec<_>>().into_iter().rev().collect::<Vec<_>>().join(":")), c);
                        return;
                    }
                    out.feat(&format!("diagnostic_positions_compared:{}", why.replace(' ', "_")));
                    if text.starts_with(char::is_whitespace) {
                        out.feat("diagnostic_positions_compared:dsl_starts_with_blank_lines");
                    }
                }
                // `--quiet` changes nothing else: the same failing run without it has the same
                // exit status and the same diagnostic
                // (usage errors of the option parser echo the options given and are left out)
                if quiet && !why.starts_with("--") && rng.chance(1, 2) {
                    let args2: Vec<String> = args.iter().filter(|a| a.as_str() != "--quiet" && a.as_str() != "-q").cloned().collect();
                    if args2.len() < args.len() {
                        let run2 = Command::new(&cli)
                            .args(&args2)
                            .env("XDG_CONFIG_HOME", format!("{}/config", home))
                            .env("XDG_CACHE_HOME", format!("{}/cache", home))
                            .env("HOME", &home)
                            .env_remove("RUST_LOG")
                            .current_dir(&dir)
                            .output();
                        out.eval();
                        if let Ok(o2) = run2 {
                            let stderr2 = String::from_utf8_lossy(&o2.stderr).to_string();
                            if o2.status.code() != code || stderr2 != stderr {
                                let mut c = cj();
                                c["stderr_without_quiet"] = json!(crate::util::trunc(&stderr2, 800));
                                out.violation("C19:quiet-changes-the-diagnostic", &format!("failing run ({}): exit {:?} with --quiet, {:?} without; the diagnostics differ", why, code, o2.status.code()), c);
                                return;
                            }
                            out.feat("quiet_failure_compared_with_non_quiet");
                        }
                    }
                }
                out.feat(&format!("fail:{}", why.replace(' ', "_")));
            }
            Expected::Ok { pretty, json } => {
                if code != Some(0) {
                    out.violation("C19:nonzero-exit-on-success", &format!("loading and execution succeed in the library, the CLI exited {:?}: {}", code, crate::util::trunc(&stderr, 300)), cj());
                    return;
                }
                if as_json {
                    let (text_json, place) = if with_output {
                        if !stdout.trim().is_empty() {
                            out.violation("C19:json-also-on-stdout", "--output was given but the JSON (or something else) was printed to stdout as well", cj());
                            return;
                        }
                        match &file_content {
                            Some(c) => (c.clone(), "file"),
                            None => {
                                out.violation("C19:output-file-missing", "--json --output did not create the file", cj());
                                return;
                            }
                        }
                    } else {
                        (stdout.clone(), "stdout")
                    };
                    let parsed: J = match serde_json::from_str(&text_json) {
                        Ok(j) => j,
                        Err(e) => {
                            out.violation("C19:json-invalid", &format!("the JSON on {} does not parse: {}", place, e), cj());
                            return;
                        }
                    };
                    if normalise(&parsed) != normalise(json) {
                        out.violation("C19:json-differs", &format!("the JSON on {} differs from the library's serialisation of the same execution", place), cj());
                        return;
                    }
                    out.feat(&format!("ok:json:{}", place));
                    if pre_existing {
                        out.feat("ok:json_over_existing_longer_file");
                    }
                    if quiet {
                        out.feat("ok:json_with_quiet");
                    }
                } else if quiet {
                    if !stdout.is_empty() {
                        out.violation("C19:quiet-prints", "--quiet still printed something to stdout", cj());
                        return;
                    }
                    out.feat("ok:quiet");
                } else {
                    // sets of syntax nodes print in address order: compare as multisets of lines
                    // only when the texts differ
                    if &stdout != pretty {
                        let mut a: Vec<&str> = stdout.lines().collect();
                        let mut b: Vec<&str> = pretty.lines().collect();
                        a.sort();
                        b.sort();
                        let set_involved = pretty.contains('{') && pretty.contains("[syntax node");
                        if a != b && !set_involved {
                            out.violation("C19:pretty-differs", "stdout differs from the library's pretty-printed graph", cj());
                            return;
                        } else if a != b {
                            out.feat("skipped:set_of_syntax_nodes_order");
                        } else {
                            out.violation("C19:pretty-differs", "stdout has the library's lines in another order", cj());
                            return;
                        }
                    }
                    out.feat("ok:pretty");
                }
                if with_output && !as_json {
                    out.feat("unreachable");
                }
                if !globals.is_empty() {
                    out.feat("ok:with_globals");
                }
                if globals.iter().any(|(_, v)| v.contains('=')) {
                    out.feat("ok:global_value_with_equals_sign");
                }
                if globals.iter().any(|(_, v)| v.contains(',')) {
                    out.feat("ok:global_value_with_comma");
                }
            }
        }
        out.feat(&format!("mode:{}", if lazy { "lazy" } else { "strict" }));
        out.nontrivial(mix(&[hash_str(&text), hash_str(&source), hash_str(&format!("{:?}", &args[2..]))]));
        if out.want_sample() && text.len() < 1500 {
            out.sample(cj());
        }
        let _ = idx;
    }
}
