//! C16 – globals are required unless defaulted, list-typed when declared, read-only.
//! Exhaustive over the declaration x supply product for one and two globals (both modes,
//! direct and nested variable sets), plus sampled larger declaration sets.

use crate::gen::print::escape_string;
use crate::model::value::*;
use crate::oracle::exec::{analyse_error, to_value, Loaded};
use crate::oracle::observe::observe_graph;
use crate::oracle::tree::{parse_python, TreeInfo};
use crate::oracle::exec;
use crate::util::{catch, hash_str, Out, Rng};
use crate::{Prop, RunCfg, Tier};
use serde_json::json;
use std::collections::BTreeMap;
use tree_sitter_graph::{ExecutionConfig, Identifier, NoCancellation, Variables};

pub struct C16;

const QUANTS: &[&str] = &["", "?", "*", "+"];

fn supply_values() -> Vec<Option<MVal>> {
    vec![
        None,
        Some(MVal::Null),
        Some(MVal::Bool(true)),
        Some(MVal::Int(7)),
        Some(MVal::str("supplied")),
        Some(MVal::List(vec![])),
        Some(MVal::List(vec![MVal::str("a"), MVal::Int(2)])),
        Some(MVal::Set([MVal::Int(1), MVal::Int(2)].into_iter().collect())),
        Some(MVal::List(vec![MVal::List(vec![MVal::Null])])),
    ]
}

#[derive(Clone, Debug)]
struct GlobalCfg {
    quant: &'static str,
    default: Option<String>,
    supply: Option<MVal>,
}

const PER_GLOBAL: usize = 4 * 2 * 9;

fn decode(i: usize, which: usize) -> GlobalCfg {
    let q = i % 4;
    let d = (i / 4) % 2;
    let s = i / 8;
    GlobalCfg {
        quant: QUANTS[q],
        default: if d == 1 { Some(format!("default{}", which)) } else { None },
        supply: supply_values()[s].clone(),
    }
}

fn program(globals: &[GlobalCfg], stanzas: bool) -> String {
    let mut t = String::new();
    for (i, g) in globals.iter().enumerate() {
        t.push_str(&format!("global g{}{}", i, g.quant));
        if let Some(d) = &g.default {
            t.push_str(&format!(" = {}", escape_string(d)));
        }
        t.push('\n');
    }
    if !stanzas {
        // a file that only declares globals: the declarations are still checked
        return t;
    }
    t.push_str("\n(module)\n{\n  node n\n");
    for (i, _) in globals.iter().enumerate() {
        t.push_str(&format!("  attr (n) top{} = g{}\n", i, i));
    }
    t.push_str("  if #true {\n");
    for (i, _) in globals.iter().enumerate() {
        t.push_str(&format!("    attr (n) in_if{} = g{}\n", i, i));
    }
    t.push_str("    for x in [1] {\n");
    for (i, _) in globals.iter().enumerate() {
        t.push_str(&format!("      attr (n) in_for{} = g{}\n", i, i));
    }
    t.push_str("      scan \"ab\" {\n        \"a\" {\n");
    for (i, _) in globals.iter().enumerate() {
        t.push_str(&format!("          attr (n) in_scan{} = g{}\n", i, i));
    }
    t.push_str("        }\n      }\n    }\n  }\n");
    for (i, _) in globals.iter().enumerate() {
        t.push_str(&format!("  let c{} = [ g{} for y in [1, 2] ]\n  attr (n) in_comp{} = c{}\n", i, i, i, i));
    }
    // uses that only the declared quantifier allows (a list global is iterated, an optional one is
    // tested): checked when the file is loaded, never run
    t.push_str("  if #false {\n");
    for (i, g) in globals.iter().enumerate() {
        if g.quant == "*" || g.quant == "+" {
            t.push_str(&format!("    for e in g{} {{ print e }}\n    print [ e for e in g{} ], {{ e for e in g{} }}\n", i, i, i));
        } else if g.quant == "?" {
            t.push_str(&format!("    if some g{} {{ print g{} }} elif none g{} {{ }}\n", i, i, i));
        }
    }
    t.push_str("  }\n");
    t.push_str("}\n\n(module)\n{\n  node m\n");
    for (i, _) in globals.iter().enumerate() {
        t.push_str(&format!("  attr (m) second_stanza{} = g{}\n", i, i));
    }
    t.push_str("}\n");
    t
}

#[derive(Debug, PartialEq)]
enum Want {
    /// admissible error roots (when several globals are wrong, which one is reported is free)
    Errors { missing: bool, not_list: bool },
    Values(Vec<MVal>),
}

fn expectation(globals: &[GlobalCfg]) -> Want {
    let mut vals = Vec::new();
    let mut missing = false;
    let mut not_list = false;
    for g in globals {
        match &g.supply {
            None => match &g.default {
                Some(d) => vals.push(MVal::Str(d.clone())),
                None => missing = true,
            },
            Some(v) => {
                if (g.quant == "*" || g.quant == "+") && !matches!(v, MVal::List(_)) {
                    not_list = true;
                }
                vals.push(v.clone());
            }
        }
    }
    if missing || not_list {
        Want::Errors { missing, not_list }
    } else {
        Want::Values(vals)
    }
}

fn snapshot(v: &Variables) -> BTreeMap<String, String> {
    v.iter().map(|(k, val)| (k.as_str().to_string(), format!("{:?}", val))).collect()
}

fn run_config(globals: &[GlobalCfg], nested: bool, stanzas: bool, out: &mut Out) -> bool {
    let text = program(globals, stanzas);
    let source = "pass";
    let tree = parse_python(source);
    let ti = TreeInfo::new(&tree);
    let case = || {
        json!({"dsl": text, "globals": globals.iter().map(|g| json!({"quant": g.quant, "default": g.default, "supplied": g.supply.as_ref().map(|v| v.to_json())})).collect::<Vec<_>>(), "nested_variable_set": nested})
    };
    // one configuration in four loads the file on another thread than the one that builds the
    // caller's variables and executes (a loaded file may be handed from thread to thread)
    let cross_thread = crate::util::hash_str(&text) % 4 == 0;
    let loaded = if cross_thread {
        out.feat("file_loaded_on_another_thread");
        std::thread::scope(|s| s.spawn(|| exec::load(&text)).join()).unwrap_or_else(|_| exec::load(&text))
    } else {
        exec::load(&text)
    };
    let file = match loaded {
        Loaded::Ok(f) => f,
        Loaded::Err(e) => {
            out.violation("C16:load-rejected", &format!("valid global declarations rejected: {:?}", e), case());
            return false;
        }
        Loaded::Panic(p) => {
            out.violation("C16:load-panic", &format!("{}: {}", p.location, p.message), case());
            return false;
        }
    };
    let want = expectation(globals);
    let functions = super::common::stdlib();
    // build the caller's variable sets
    let mut outer = Variables::new();
    for (i, g) in globals.iter().enumerate() {
        if let Some(v) = &g.supply {
            if !nested || i % 2 == 0 {
                let _ = outer.add(Identifier::from(format!("g{}", i).as_str()), to_value(v, &|_| None).unwrap());
            }
        }
    }
    if nested {
        // a decoy under the same name in the enclosing set: the nested binding must win
        for (i, g) in globals.iter().enumerate() {
            if g.supply.is_some() && i % 2 == 1 {
                let _ = outer.add(Identifier::from(format!("g{}", i).as_str()), tree_sitter_graph::graph::Value::String("decoy from the enclosing set".into()));
            }
        }
    }
    outer.add(Identifier::from("unrelated"), 1u32.into()).ok();
    let outer_before = snapshot(&outer);
    let mut inner = Variables::nested(&outer);
    if nested {
        for (i, g) in globals.iter().enumerate() {
            if let Some(v) = &g.supply {
                if i % 2 == 1 {
                    let _ = inner.add(Identifier::from(format!("g{}", i).as_str()), to_value(v, &|_| None).unwrap());
                }
            }
        }
    }
    let inner_before = snapshot(&inner);
    for lazy in [false, true] {
        let mode = if lazy { "lazy" } else { "strict" };
        let vars: &Variables = if nested { &inner } else { &outer };
        let r = catch(|| {
            let config = ExecutionConfig::new(&functions, vars).lazy(lazy);
            file.execute(&tree, source, &config, &NoCancellation).map(|g| observe_graph(&g, &ti))
        });
        out.eval();
        match r {
            Err(p) => {
                out.violation(&format!("C16:panic:{}", mode), &format!("{}: {}", p.location, p.message), case());
                return false;
            }
            Ok(Err(e)) => {
                let info = analyse_error(&e);
                match &want {
                    Want::Errors { missing, not_list } => {
                        let ok = (*missing && info.root == "MissingGlobalVariable") || (*not_list && info.root == "ExpectedList");
                        if !ok {
                            out.violation(&format!("C16:wrong-error:{}", mode), &format!("expected a {} error, got {}", if *missing { "missing-global" } else { "list-type" }, info.display), case());
                            return false;
                        }
                        if info.root == "MissingGlobalVariable" {
                            out.feat("missing_global_reported");
                        } else {
                            out.feat("non_list_rejected");
                        }
                    }
                    Want::Values(_) => {
                        out.violation(&format!("C16:spurious-error:{}", mode), &format!("execution failed: {}", info.display), case());
                        return false;
                    }
                }
            }
            Ok(Ok(Err(e))) => {
                out.violation("C16:unreadable-graph", &e, case());
                return false;
            }
            Ok(Ok(Ok(g))) => match &want {
                Want::Values(_) if !stanzas => {
                    if !g.nodes.is_empty() {
                        out.violation(&format!("C16:wrong-graph:{}", mode), "a file without stanzas produced graph nodes", case());
                        return false;
                    }
                    out.feat("stanza_less_file_ok");
                }
                Want::Values(vals) => {
                    if g.nodes.len() != 2 {
                        out.violation(&format!("C16:wrong-graph:{}", mode), &format!("expected two nodes, got {}", g.nodes.len()), case());
                        return false;
                    }
                    for (i, v) in vals.iter().enumerate() {
                        for (ni, place) in [(0, "top"), (0, "in_if"), (0, "in_for"), (0, "in_scan"), (1, "second_stanza")] {
                            let got = g.nodes[ni].attrs.get(&format!("{}{}", place, i));
                            if got != Some(v) {
                                out.violation(&format!("C16:wrong-value:{}", mode), &format!("global g{} read at {} evaluates to {:?}, expected {:?}", i, place, got, v), case());
                                return false;
                            }
                        }
                        let got = g.nodes[0].attrs.get(&format!("in_comp{}", i));
                        let w = MVal::List(vec![v.clone(), v.clone()]);
                        if got != Some(&w) {
                            out.violation(&format!("C16:wrong-value:{}", mode), &format!("global g{} read in a comprehension evaluates to {:?}", i, got), case());
                            return false;
                        }
                    }
                    out.feat("values_ok");
                    if globals.iter().any(|g| g.supply.is_none() && g.default.is_some()) {
                        out.feat("default_used");
                    }
                    if globals.iter().any(|g| g.supply.is_some() && g.default.is_some()) {
                        out.feat("default_not_overriding_supplied");
                    }
                }
                other => {
                    out.violation(&format!("C16:missing-error:{}", mode), &format!("execution succeeded, expected {:?}", other), case());
                    return false;
                }
            },
        }
    }
    if snapshot(&inner) != inner_before {
        out.violation("C16:caller-variables-changed", &format!("nested set changed: {:?} -> {:?}", inner_before, snapshot(&inner)), case());
        return false;
    }
    drop(inner);
    if snapshot(&outer) != outer_before {
        out.violation("C16:caller-variables-changed", &format!("caller's set changed: {:?} -> {:?}", outer_before, snapshot(&outer)), case());
        return false;
    }
    out.nontrivial(hash_str(&format!("{:?}{}", globals, nested)));
    if out.want_sample() && globals.len() == 2 {
        out.sample(case());
    }
    true
}

const STATIC_CASES: &[(&str, &str)] = &[
    ("redeclare", "global g\nglobal g\n(module) { node n attr (n) v = g }"),
    ("hide_let", "global g\n(module) { let g = 1 node n attr (n) v = g }"),
    ("hide_var", "global g\n(module) { var g = 1 node n attr (n) v = g }"),
    ("hide_node", "global g\n(module) { node g }"),
    ("hide_for", "global g\n(module) { for g in [1] { node n } }"),
    ("hide_comprehension", "global g\n(module) { node n attr (n) v = [ 1 for g in [1] ] }"),
    ("hide_in_nested_block", "global g\n(module) { if #true { let g = 1 } }"),
    ("assign", "global g\n(module) { set g = 1 }"),
    ("assign_in_loop", "global g\n(module) { for x in [1] { set g = x } }"),
    ("redeclare_with_quantifier", "global g*\nglobal g\n(module) { node n attr (n) v = g }"),
];

const ONE: usize = PER_GLOBAL * 2;
const TWO: usize = PER_GLOBAL * PER_GLOBAL * 2;

impl Prop for C16 {
    fn id(&self) -> &'static str {
        "C16"
    }
    fn directed(&self) -> usize {
        STATIC_CASES.len()
    }
    fn cases(&self, cfg: &RunCfg) -> usize {
        let product = (ONE + TWO + cfg.nshards - 1) / cfg.nshards;
        product
            + match cfg.tier {
                Tier::Quick => 150,
                Tier::Thorough => 6000,
            }
    }
    fn run_case(&self, cfg: &RunCfg, idx: usize, rng: &mut Rng, out: &mut Out) {
        if idx < STATIC_CASES.len() {
            let (name, text) = STATIC_CASES[idx];
            out.eval();
            match exec::load(text) {
                Loaded::Err(e) => {
                    let d = format!("{:?}", e);
                    let want = if name.starts_with("redeclare") {
                        "DuplicateGlobalVariable"
                    } else if name.starts_with("hide") {
                        "CannotHideGlobalVariable"
                    } else {
                        "CannotSetGlobalVariable"
                    };
                    // the diagnostic must render (plain and pretty) and name the global
                    let rendered = catch(|| format!("{}\n{}", e, e.display_pretty(std::path::Path::new("rules.tsg"), text)));
                    match rendered {
                        Err(p) => {
                            out.violation("C16:static-rule-render-panic", &format!("{}: {}: {}", name, p.location, p.message), json!({"dsl": text}));
                            return;
                        }
                        Ok(r) => {
                            if !r.contains("rules.tsg:") {
                                out.violation("C16:static-rule-render", &format!("{}: the pretty diagnostic does not cite the file: {}", name, r), json!({"dsl": text}));
                                return;
                            }
                        }
                    }
                    if d.contains("Check(") && d.contains(want) {
                        out.feat(&format!("static:{}", name));
                    } else if d.contains("Check(") {
                        // rejected by another static rule: the property only asks for rejection
                        out.feat(&format!("static_other_rule:{}", name));
                    } else {
                        out.violation("C16:static-rule-wrong-error", &format!("{}: rejected by the parser instead of the global rules: {}", name, d), json!({"dsl": text}));
                    }
                }
                Loaded::Ok(_) => out.violation("C16:static-rule-not-enforced", &format!("{}: the file was accepted", name), json!({"dsl": text})),
                Loaded::Panic(p) => out.violation("C16:load-panic", &format!("{}: {}", p.location, p.message), json!({"dsl": text})),
            }
            return;
        }
        if idx == STATIC_CASES.len() {
            // a shorthand parameter with the name of a global hides it: load-time rejection or a
            // run-time error are both fine, silently reading the global (or the argument) is not
            let text = "global g\nattribute sh = g => tag = g\n(module) { node n attr (n) sh = \"argument\" }";
            if let Loaded::Ok(file) = exec::load(text) {
                let tree = parse_python("pass");
                let functions = super::common::stdlib();
                let mut vars = Variables::new();
                let _ = vars.add(Identifier::from("g"), "supplied".into());
                for lazy in [false, true] {
                    let r = catch(|| {
                        let config = ExecutionConfig::new(&functions, &vars).lazy(lazy);
                        file.execute(&tree, "pass", &config, &NoCancellation).is_ok()
                    });
                    out.eval();
                    match r {
                        Ok(true) => {
                            out.violation("C16:shorthand-parameter-hides-global", &format!("a shorthand parameter named like a global was accepted and executed ({})", if lazy { "lazy" } else { "strict" }), json!({"dsl": text}));
                            return;
                        }
                        Ok(false) => out.feat("shorthand_parameter_hiding_global_rejected"),
                        Err(p) => {
                            out.violation("C16:panic", &format!("{}: {}", p.location, p.message), json!({"dsl": text}));
                            return;
                        }
                    }
                }
            } else {
                out.feat("shorthand_parameter_hiding_global_rejected");
            }
        }
        let k = idx - STATIC_CASES.len();
        let product = (ONE + TWO + cfg.nshards - 1) / cfg.nshards;
        if k < product {
            let ci = k * cfg.nshards + cfg.shard;
            if ci < ONE {
                let g = decode(ci / 2, 0);
                let stanza_less = run_config(&[g.clone()], ci % 2 == 1, false, out);
                if stanza_less {
                    out.feat("product:one_global_no_stanzas");
                }
                if run_config(&[g], ci % 2 == 1, true, out) {
                    out.feat("product:one_global");
                }
            } else if ci < ONE + TWO {
                let c = ci - ONE;
                let nested = c % 2 == 1;
                let c = c / 2;
                let a = decode(c / PER_GLOBAL, 0);
                let b = decode(c % PER_GLOBAL, 1);
                if run_config(&[a, b], nested, true, out) {
                    out.feat("product:two_globals");
                }
            }
            return;
        }
        // sampled: three or four globals
        let n = rng.range(3, 4);
        let gs: Vec<GlobalCfg> = (0..n)
            .map(|i| {
                // bias towards configurations that run
                let mut g = decode(rng.below(PER_GLOBAL), i);
                if rng.chance(2, 3) && g.supply.is_none() && g.default.is_none() {
                    g.default = Some(format!("default{}", i));
                }
                if rng.chance(2, 3) && (g.quant == "*" || g.quant == "+") {
                    g.supply = Some(MVal::List(vec![MVal::Int(i as u32)]));
                }
                g
            })
            .collect();
        if run_config(&gs, rng.chance(1, 2), true, out) {
            out.feat("sampled:three_or_four_globals");
        }
    }
}
