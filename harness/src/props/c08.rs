//! C08 – lazy evaluation does not depend on the order of stanzas (differential between
//! permutations of one file's stanzas; all n! for n <= 5, sampled beyond).

use super::common::*;
use crate::gen::ast::*;
use crate::gen::dsl::GenCfg;
use crate::gen::print::print_house;
use crate::oracle::exec::{self, ExecOpts, Loaded, Real};
use crate::oracle::iso::{isomorphic, Iso};
use crate::oracle::tree::{parse_python, TreeInfo};
use crate::util::{Out, Rng};
use crate::{Prop, RunCfg, Tier};
use serde_json::json;

pub struct C08;

fn permutations(n: usize) -> Vec<Vec<usize>> {
    fn go(cur: &mut Vec<usize>, used: &mut Vec<bool>, n: usize, out: &mut Vec<Vec<usize>>) {
        if cur.len() == n {
            out.push(cur.clone());
            return;
        }
        for i in 0..n {
            if !used[i] {
                used[i] = true;
                cur.push(i);
                go(cur, used, n, out);
                cur.pop();
                used[i] = false;
            }
        }
    }
    let mut out = Vec::new();
    go(&mut Vec::new(), &mut vec![false; n], n, &mut out);
    out
}

pub fn permute_file(file: &GFile, perm: &[usize]) -> GFile {
    let stanzas: Vec<GStanza> = file.stanzas().into_iter().cloned().collect();
    let mut k = 0;
    let mut items = Vec::new();
    for it in &file.items {
        match it {
            Item::Stanza(_) => {
                items.push(Item::Stanza(stanzas[perm[k]].clone()));
                k += 1;
            }
            other => items.push(other.clone()),
        }
    }
    GFile { items }
}

impl Prop for C08 {
    fn id(&self) -> &'static str {
        "C08"
    }
    fn cases(&self, cfg: &RunCfg) -> usize {
        match cfg.tier {
            Tier::Quick => 60,
            Tier::Thorough => 3000,
        }
    }
    fn run_case(&self, _cfg: &RunCfg, _idx: usize, rng: &mut Rng, out: &mut Out) {
        let mut gcfg = GenCfg::order_insensitive();
        gcfg.forward_refs = true;
        gcfg.fault_pct = 10;
        gcfg.max_stanzas = 2 + rng.below(5);
        gcfg.print = false;
        let case = build_case(rng, &gcfg, 0, 10, 8);
        let n = case.prog.file.stanzas().len();
        if n < 2 {
            return;
        }
        let tree = parse_python(&case.source);
        let ti = TreeInfo::new(&tree);
        if let Some(a) = &ti.anomaly {
            out.inconclusive(&format!("tree-sitter anomaly: {}", a));
            return;
        }
        if let Ok(prep) = prepare(&case.prog.file, &tree, &case.source, &ti) {
            if prep.rootless > 0 || prep.shape_anomalies > 0 {
                out.inconclusive("match without root node / capture shape anomaly");
                return;
            }
        }
        let functions = stdlib();
        let perms: Vec<Vec<usize>> = if n <= 5 {
            out.feat(&format!("exhaustive_permutations_n{}", n));
            permutations(n)
        } else {
            out.feat(&format!("sampled_permutations_n{}", n));
            let mut ps = vec![(0..n).collect::<Vec<_>>()];
            for _ in 0..200 {
                let mut p: Vec<usize> = (0..n).collect();
                rng.shuffle(&mut p);
                ps.push(p);
            }
            ps
        };
        // 1 in 3 programs run with debug attributes (their values depend on the layout, so they
        // are stripped before graphs are compared)
        let with_debug = rng.chance(1, 3);
        const DBG: [&str; 3] = ["dbg_location", "dbg_variable", "dbg_match_node"];
        let mut reference: Option<(Real, String)> = None;
        let mut runs = 0u64;
        for perm in &perms {
            let mut f = permute_file(&case.prog.file, perm);
            f.number();
            let text = print_house(&mut f);
            let file = match exec::load(&text) {
                Loaded::Ok(f) => f,
                Loaded::Err(_) => {
                    out.feat("load_rejected");
                    return;
                }
                Loaded::Panic(p) => {
                    out.violation(&format!("C08:load-panic:{}", p.site_file()), &format!("loading panicked at {}: {}", p.location, p.message), case_json(&text, &case.source, &case.prog.globals));
                    return;
                }
            };
            let mut opts = ExecOpts::new(true);
            if with_debug {
                opts.debug_attrs = Some((DBG[0], DBG[1], DBG[2]));
            }
            let mut rep = exec::execute(&file, &tree, &case.source, &ti, &case.prog.globals, &functions, &opts);
            if with_debug {
                if let Real::Graph(g) = &rep.real {
                    rep.real = Real::Graph(g.without_attrs(&DBG));
                }
            }
            runs += 1;
            out.eval();
            if let Real::Panic(p) = &rep.real {
                out.violation(&format!("C08:lazy-panic:{}", p.site_file()), &format!("lazy execution panicked at {}: {}", p.location, p.message), case_json(&text, &case.source, &case.prog.globals));
                return;
            }
            if let Real::Unreadable(s) = &rep.real {
                out.violation("C08:unreadable-graph", s, case_json(&text, &case.source, &case.prog.globals));
                return;
            }
            match &reference {
                None => reference = Some((rep.real, text)),
                Some((r0, text0)) => {
                    let bad = match (r0, &rep.real) {
                        (Real::Graph(a), Real::Graph(b)) => match isomorphic(a, b, 200_000) {
                            Iso::Same => None,
                            Iso::Different(why) => Some(format!("graphs differ: {}", why)),
                            Iso::Unknown => {
                                out.inconclusive("isomorphism budget exhausted");
                                None
                            }
                        },
                        (Real::Error(..), Real::Error(..)) => None,
                        (Real::Graph(_), Real::Error(e, _)) => Some(format!("identity order succeeds, permutation {:?} fails: {}", perm, crate::util::trunc(&e.display, 300))),
                        (Real::Error(e, _), Real::Graph(_)) => Some(format!("identity order fails ({}), permutation {:?} succeeds", crate::util::trunc(&e.display, 300), perm)),
                        _ => None,
                    };
                    if let Some(msg) = bad {
                        let mut cj = case_json(text0, &case.source, &case.prog.globals);
                        cj["permutation"] = json!(perm);
                        cj["permuted_dsl"] = json!(text);
                        cj["first"] = json!(r0.brief());
                        cj["second"] = json!(rep.real.brief());
                        out.violation("C08:order-dependence", &msg, cj);
                        return;
                    }
                }
            }
        }
        out.feat("programs");
        if with_debug {
            out.feat("programs_with_debug_attributes");
        }
        out.feat_n("permutation_runs", runs);
        if let Some((r, text0)) = &reference {
            match r {
                Real::Graph(g) => {
                    out.feat("outcome:graph");
                    if g.nodes.len() >= 2 {
                        out.nontrivial(case_hash(text0, &case.source, &case.prog.globals));
                    }
                }
                Real::Error(e, _) => {
                    out.feat("outcome:error");
                    out.feat(&format!("error:{}", e.root));
                    out.nontrivial(case_hash(text0, &case.source, &case.prog.globals));
                }
                _ => {}
            }
            if out.want_sample() {
                let mut cj = case_json(text0, &case.source, &case.prog.globals);
                cj["permutations_run"] = json!(runs);
                cj["outcome"] = json!(r.brief());
                out.sample(cj);
            }
        }
        for f in &case.prog.features {
            out.feat(&format!("gen:{}", f));
        }
    }
}
