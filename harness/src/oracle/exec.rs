//! Driving the real library: load, execute (strict / lazy), observe the result.

use crate::model::value::*;
use crate::oracle::observe::observe_graph;
use crate::oracle::tree::{python, TreeInfo};
use crate::util::{catch, PanicInfo};
use std::collections::BTreeMap;
use std::collections::BTreeSet;
use std::sync::atomic::{AtomicU64, Ordering};
use tree_sitter::Tree;
use tree_sitter_graph::ast::File;
use tree_sitter_graph::functions::Functions;
use tree_sitter_graph::graph::{Graph, Value};
use tree_sitter_graph::verif_hooks::{Context, StatementContext};
use tree_sitter_graph::{
    CancellationError, CancellationFlag, ExecutionConfig, ExecutionError, Identifier, ParseError,
    Variables,
};

pub enum Loaded {
    Ok(File),
    Err(ParseError),
    Panic(PanicInfo),
}

pub fn load(text: &str) -> Loaded {
    match catch(|| File::from_str(python(), text)) {
        Ok(Ok(f)) => Loaded::Ok(f),
        Ok(Err(e)) => Loaded::Err(e),
        Err(p) => Loaded::Panic(p),
    }
}

#[derive(Clone, Debug)]
pub struct StmtCtx {
    pub statement: String,
    pub statement_loc: (usize, usize),
    pub stanza_loc: (usize, usize),
    pub source_loc: (usize, usize),
    pub node_kind: String,
}

impl From<&StatementContext> for StmtCtx {
    fn from(c: &StatementContext) -> StmtCtx {
        StmtCtx {
            statement: c.statement.clone(),
            statement_loc: (c.statement_location.row, c.statement_location.column),
            stanza_loc: (c.stanza_location.row, c.stanza_location.column),
            source_loc: (c.source_location.row, c.source_location.column),
            node_kind: c.node_kind.clone(),
        }
    }
}

#[derive(Clone, Debug)]
pub struct ExecErr {
    /// variant name of the innermost (root cause) error
    pub root: String,
    /// statement contexts found on the chain, outermost first; a two-sided context counts as two
    pub contexts: Vec<Vec<StmtCtx>>,
    pub other_contexts: Vec<String>,
    pub top_is_cancelled: bool,
    pub cancelled_anywhere: bool,
    pub display: String,
}

pub fn variant_name(e: &ExecutionError) -> String {
    let d = format!("{:?}", e);
    d.split(|c: char| c == '(' || c == ' ' || c == '{')
        .next()
        .unwrap_or("")
        .to_string()
}

pub fn analyse_error(e: &ExecutionError) -> ExecErr {
    let mut contexts = Vec::new();
    let mut others = Vec::new();
    let mut cur = e;
    let top_is_cancelled = matches!(e, ExecutionError::Cancelled(_));
    let mut cancelled_anywhere = top_is_cancelled;
    loop {
        match cur {
            ExecutionError::InContext(ctx, cause) => {
                match ctx {
                    Context::Statement(v) => contexts.push(v.iter().map(StmtCtx::from).collect()),
                    Context::Other(s) => others.push(s.clone()),
                }
                cur = cause;
            }
            ExecutionError::Cancelled(_) => {
                cancelled_anywhere = true;
                break;
            }
            _ => break,
        }
    }
    ExecErr {
        root: variant_name(cur),
        contexts,
        other_contexts: others,
        top_is_cancelled,
        cancelled_anywhere,
        display: format!("{}", e),
    }
}

pub enum Real {
    Graph(OGraph),
    Error(ExecErr, ExecutionError),
    Panic(PanicInfo),
    /// the result graph could not be read back consistently (a violation in itself)
    Unreadable(String),
}

impl Real {
    pub fn brief(&self) -> String {
        match self {
            Real::Graph(g) => format!("graph {}", g.brief()),
            Real::Error(e, _) => format!("error {} :: {}", e.root, crate::util::trunc(&e.display, 400)),
            Real::Panic(p) => format!("PANIC at {}: {}", p.location, crate::util::trunc(&p.message, 300)),
            Real::Unreadable(s) => format!("unreadable graph: {}", s),
        }
    }
    pub fn is_graph(&self) -> bool {
        matches!(self, Real::Graph(_))
    }
}

/// Convert a model value to a library value. Syntax and graph nodes cannot be built from the
/// outside; `gnode` supplies references for graph nodes (C09), syntax nodes are rejected.
pub fn to_value(v: &MVal, gnode: &dyn Fn(usize) -> Option<Value>) -> Option<Value> {
    Some(match v {
        MVal::Null => Value::Null,
        MVal::Bool(b) => Value::Boolean(*b),
        MVal::Int(i) => Value::Integer(*i),
        MVal::Str(s) => Value::String(s.clone()),
        MVal::List(xs) => Value::List(
            xs.iter()
                .map(|x| to_value(x, gnode))
                .collect::<Option<Vec<_>>>()?,
        ),
        MVal::Set(xs) => Value::Set(
            xs.iter()
                .map(|x| to_value(x, gnode))
                .collect::<Option<BTreeSet<_>>>()?,
        ),
        MVal::Syn(_) => return None,
        MVal::GNode(i) => return gnode(*i),
    })
}

pub fn make_globals<'a>(
    globals: &BTreeMap<String, MVal>,
    gnode: &dyn Fn(usize) -> Option<Value>,
) -> Variables<'a> {
    let mut vars = Variables::new();
    for (k, v) in globals {
        if let Some(val) = to_value(v, gnode) {
            let _ = vars.add(Identifier::from(k.as_str()), val);
        }
    }
    vars
}

/// A cancellation flag that counts polls per label and fails from poll `fail_at` on
/// (`u64::MAX` = never).  Also the logical clock for termination verdicts.
pub struct CountingFlag {
    pub polls: AtomicU64,
    pub fail_at: u64,
    pub polls_after_fail: AtomicU64,
    pub labels: std::sync::Mutex<BTreeMap<&'static str, u64>>,
}

impl CountingFlag {
    pub fn new(fail_at: u64) -> CountingFlag {
        CountingFlag {
            polls: AtomicU64::new(0),
            fail_at,
            polls_after_fail: AtomicU64::new(0),
            labels: std::sync::Mutex::new(BTreeMap::new()),
        }
    }
    pub fn count(&self) -> u64 {
        self.polls.load(Ordering::SeqCst)
    }
}

impl CancellationFlag for CountingFlag {
    fn check(&self, at: &'static str) -> Result<(), CancellationError> {
        let n = self.polls.fetch_add(1, Ordering::SeqCst) + 1;
        if let Ok(mut l) = self.labels.lock() {
            *l.entry(at).or_insert(0) += 1;
        }
        if n >= self.fail_at {
            if n > self.fail_at {
                self.polls_after_fail.fetch_add(1, Ordering::SeqCst);
            }
            Err(CancellationError(at))
        } else {
            Ok(())
        }
    }
}

pub struct ExecOpts<'a> {
    pub lazy: bool,
    pub debug_attrs: Option<(&'a str, &'a str, &'a str)>,
    /// give up (logical clock) after this many polls
    pub poll_limit: u64,
}

impl<'a> ExecOpts<'a> {
    pub fn new(lazy: bool) -> ExecOpts<'a> {
        ExecOpts {
            lazy,
            debug_attrs: None,
            poll_limit: 5_000_000,
        }
    }
}

pub struct ExecReport {
    pub real: Real,
    pub polls: u64,
    pub poll_limit_hit: bool,
    /// the first budget was exhausted and the run was repeated with a wider one
    pub escalated: bool,
}

/// `execute`, and when the poll budget runs out once more with twenty times the budget: a
/// program that is merely heavy finishes then; `poll_limit_hit` is only reported when the larger
/// budget is exhausted as well (bounded-progress verdict on the logical clock, not on time).
pub fn execute(
    file: &File,
    tree: &Tree,
    source: &str,
    ti: &TreeInfo,
    globals: &BTreeMap<String, MVal>,
    functions: &Functions,
    opts: &ExecOpts,
) -> ExecReport {
    let first = execute_once(file, tree, source, ti, globals, functions, opts);
    if !first.poll_limit_hit {
        return first;
    }
    let mut wider = ExecOpts::new(opts.lazy);
    wider.debug_attrs = opts.debug_attrs;
    wider.poll_limit = opts.poll_limit.saturating_mul(20);
    let mut second = execute_once(file, tree, source, ti, globals, functions, &wider);
    second.escalated = true;
    second
}

fn execute_once(
    file: &File,
    tree: &Tree,
    source: &str,
    ti: &TreeInfo,
    globals: &BTreeMap<String, MVal>,
    functions: &Functions,
    opts: &ExecOpts,
) -> ExecReport {
    let vars = make_globals(globals, &|_| None);
    let flag = CountingFlag::new(opts.poll_limit);
    let r = catch(|| {
        // the two builder methods commute: which one is called first follows the parity of the
        // source length (deterministic per case, both orders across cases)
        let mut config = ExecutionConfig::new(functions, &vars);
        let debug_first = source.len() % 2 == 1;
        if !debug_first {
            config = config.lazy(opts.lazy);
        }
        if let Some((l, v, m)) = opts.debug_attrs {
            config = config.debug_attributes(
                Identifier::from(l),
                Identifier::from(v),
                Identifier::from(m),
            );
        }
        if debug_first {
            config = config.lazy(opts.lazy);
        }
        match file.execute(tree, source, &config, &flag) {
            Ok(graph) => match observe_graph(&graph, ti) {
                Ok(g) => Real::Graph(g),
                Err(e) => Real::Unreadable(e),
            },
            Err(e) => {
                let info = analyse_error(&e);
                Real::Error(info, e)
            }
        }
    });
    let polls = flag.count();
    let real = match r {
        Ok(r) => r,
        Err(p) => Real::Panic(p),
    };
    let poll_limit_hit = polls >= opts.poll_limit;
    ExecReport {
        real,
        polls,
        poll_limit_hit,
        escalated: false,
    }
}

/// Execute into an existing graph (C09, C11); the caller observes the graph itself.
pub fn execute_into<'t>(
    file: &File,
    graph: &mut Graph<'t>,
    tree: &'t Tree,
    source: &'t str,
    vars: &Variables,
    functions: &Functions,
    lazy: bool,
    flag: &dyn CancellationFlag,
) -> Result<Result<(), ExecutionError>, PanicInfo> {
    catch(|| {
        let config = ExecutionConfig::new(functions, vars).lazy(lazy);
        file.execute_into(graph, tree, source, &config, flag)
    })
}
