//! Graph comparison up to renumbering of graph nodes.
//!
//! identity first, then colour refinement, then bounded backtracking inside colour classes.

use crate::model::value::*;
use crate::util::{hash_str, mix};
use std::collections::BTreeMap;

#[derive(Debug, PartialEq, Eq)]
pub enum Iso {
    Same,
    Different(String),
    /// search budget exhausted
    Unknown,
}

fn hash_val(v: &MVal, colour: &[u64]) -> u64 {
    match v {
        MVal::Null => 11,
        MVal::Bool(b) => mix(&[12, *b as u64]),
        MVal::Int(i) => mix(&[13, *i as u64]),
        MVal::Str(s) => mix(&[14, hash_str(s)]),
        MVal::List(xs) => {
            let mut parts = vec![15u64];
            for x in xs {
                parts.push(hash_val(x, colour));
            }
            mix(&parts)
        }
        MVal::Set(xs) => {
            let mut hs: Vec<u64> = xs.iter().map(|x| hash_val(x, colour)).collect();
            hs.sort();
            let mut parts = vec![16u64];
            parts.extend(hs);
            mix(&parts)
        }
        MVal::Syn(i) => mix(&[17, *i as u64]),
        MVal::GNode(i) => mix(&[18, colour.get(*i).copied().unwrap_or(99)]),
    }
}

fn hash_attrs(a: &Attrs, colour: &[u64]) -> u64 {
    let mut parts = vec![21u64];
    for (k, v) in a {
        parts.push(hash_str(k));
        parts.push(hash_val(v, colour));
    }
    mix(&parts)
}

fn refine(g: &OGraph, rounds: usize) -> Vec<u64> {
    let n = g.nodes.len();
    let mut colour = vec![1u64; n];
    let mut incoming: Vec<Vec<usize>> = vec![Vec::new(); n];
    for (i, node) in g.nodes.iter().enumerate() {
        for s in node.edges.keys() {
            if *s < n {
                incoming[*s].push(i);
            }
        }
    }
    for _ in 0..rounds {
        let mut next = vec![0u64; n];
        for (i, node) in g.nodes.iter().enumerate() {
            let mut outs: Vec<u64> = node
                .edges
                .iter()
                .map(|(s, a)| mix(&[31, colour.get(*s).copied().unwrap_or(98), hash_attrs(a, &colour)]))
                .collect();
            outs.sort();
            let mut ins: Vec<u64> = incoming[i]
                .iter()
                .map(|src| mix(&[32, colour[*src], hash_attrs(&g.nodes[*src].edges[&i], &colour)]))
                .collect();
            ins.sort();
            let mut parts = vec![colour[i], hash_attrs(&node.attrs, &colour), 41];
            parts.extend(outs);
            parts.push(42);
            parts.extend(ins);
            next[i] = mix(&parts);
        }
        let classes_before = count_classes(&colour);
        let classes_after = count_classes(&next);
        colour = next;
        if classes_after == classes_before && classes_after > 0 {
            // one more round has been applied; stable partition size => stop
            break;
        }
    }
    colour
}

fn count_classes(c: &[u64]) -> usize {
    let mut v = c.to_vec();
    v.sort();
    v.dedup();
    v.len()
}

/// First difference between two graphs with identical numbering, as text.
pub fn first_difference(a: &OGraph, b: &OGraph) -> Option<String> {
    if a.nodes.len() != b.nodes.len() {
        return Some(format!("node count {} vs {}", a.nodes.len(), b.nodes.len()));
    }
    for (i, (x, y)) in a.nodes.iter().zip(b.nodes.iter()).enumerate() {
        if x.attrs != y.attrs {
            return Some(format!(
                "node {} attrs {:?} vs {:?}",
                i, x.attrs, y.attrs
            ));
        }
        if x.edges != y.edges {
            return Some(format!("node {} edges {:?} vs {:?}", i, x.edges, y.edges));
        }
    }
    None
}

pub fn isomorphic(a: &OGraph, b: &OGraph, budget: usize) -> Iso {
    if a.nodes.len() != b.nodes.len() {
        return Iso::Different(format!(
            "node count {} vs {}",
            a.nodes.len(),
            b.nodes.len()
        ));
    }
    if a == b {
        return Iso::Same;
    }
    if a.edge_count() != b.edge_count() {
        return Iso::Different(format!(
            "edge count {} vs {}",
            a.edge_count(),
            b.edge_count()
        ));
    }
    if a.attr_count() != b.attr_count() {
        return Iso::Different(format!(
            "attribute count {} vs {}",
            a.attr_count(),
            b.attr_count()
        ));
    }
    let n = a.nodes.len();
    let ca = refine(a, n + 2);
    let cb = refine(b, n + 2);
    let mut classes_a: BTreeMap<u64, Vec<usize>> = BTreeMap::new();
    let mut classes_b: BTreeMap<u64, Vec<usize>> = BTreeMap::new();
    for (i, c) in ca.iter().enumerate() {
        classes_a.entry(*c).or_default().push(i);
    }
    for (i, c) in cb.iter().enumerate() {
        classes_b.entry(*c).or_default().push(i);
    }
    if classes_a.len() != classes_b.len()
        || classes_a
            .iter()
            .any(|(c, v)| classes_b.get(c).map(|w| w.len()) != Some(v.len()))
    {
        // find a witness class
        for (c, v) in &classes_a {
            if classes_b.get(c).map(|w| w.len()) != Some(v.len()) {
                let i = v[0];
                return Iso::Different(format!(
                    "no counterpart for node {} of the first graph (attrs {:?}, {} out-edges); {} such nodes vs {}",
                    i,
                    a.nodes[i].attrs,
                    a.nodes[i].edges.len(),
                    v.len(),
                    classes_b.get(c).map(|w| w.len()).unwrap_or(0)
                ));
            }
        }
        return Iso::Different("colour classes differ".into());
    }
    // backtracking: assign nodes of a to nodes of b within classes
    let order: Vec<usize> = {
        let mut o: Vec<usize> = (0..n).collect();
        // most constrained (smallest class) first
        o.sort_by_key(|i| (classes_a[&ca[*i]].len(), *i));
        o
    };
    let mut perm = vec![usize::MAX; n];
    let mut used = vec![false; n];
    let mut steps = 0usize;
    match search(a, b, &ca, &classes_b, &order, 0, &mut perm, &mut used, &mut steps, budget) {
        Some(true) => Iso::Same,
        Some(false) => Iso::Different(
            "same local structure everywhere, but no renumbering makes the graphs equal".into(),
        ),
        None => Iso::Unknown,
    }
}

/// check the partial assignment for node `i` (just assigned) against already assigned neighbours
fn consistent(a: &OGraph, b: &OGraph, perm: &[usize], i: usize) -> bool {
    let pi = perm[i];
    let na = &a.nodes[i];
    let nb = &b.nodes[pi];
    if na.edges.len() != nb.edges.len() || na.attrs.len() != nb.attrs.len() {
        return false;
    }
    // attributes whose graph-node references are all assigned must match exactly
    let all_assigned = |v: &MVal| -> bool {
        let mut acc = Vec::new();
        v.gnodes(&mut acc);
        acc.iter().all(|g| *g < perm.len() && perm[*g] != usize::MAX)
    };
    let f = |g: usize| -> usize { perm[g] };
    for (k, v) in &na.attrs {
        match nb.attrs.get(k) {
            None => return false,
            Some(w) => {
                if all_assigned(v) && &v.map_gnodes(&f) != w {
                    return false;
                }
            }
        }
    }
    for (s, ea) in &na.edges {
        if *s < perm.len() && perm[*s] != usize::MAX {
            match nb.edges.get(&perm[*s]) {
                None => return false,
                Some(eb) => {
                    if ea.len() != eb.len() {
                        return false;
                    }
                    for (k, v) in ea {
                        match eb.get(k) {
                            None => return false,
                            Some(w) => {
                                if all_assigned(v) && &v.map_gnodes(&f) != w {
                                    return false;
                                }
                            }
                        }
                    }
                }
            }
        }
    }
    // edges from already assigned nodes into i
    for (j, nj) in a.nodes.iter().enumerate() {
        if perm[j] == usize::MAX || j == i {
            continue;
        }
        let has = nj.edges.contains_key(&i);
        let has_b = b.nodes[perm[j]].edges.contains_key(&pi);
        if has != has_b {
            return false;
        }
    }
    true
}

/// iterative backtracking (graphs can have thousands of nodes: no recursion)
#[allow(clippy::too_many_arguments)]
fn search(
    a: &OGraph,
    b: &OGraph,
    ca: &[u64],
    classes_b: &BTreeMap<u64, Vec<usize>>,
    order: &[usize],
    _pos: usize,
    perm: &mut Vec<usize>,
    used: &mut Vec<bool>,
    steps: &mut usize,
    budget: usize,
) -> Option<bool> {
    let n = order.len();
    if n == 0 {
        return Some(a.renumber(perm) == *b);
    }
    // next candidate index to try at each position
    let mut next: Vec<usize> = vec![0; n];
    let mut pos: usize = 0;
    loop {
        if pos == n {
            if a.renumber(perm) == *b {
                return Some(true);
            }
            // backtrack from the last position
            pos -= 1;
            let i = order[pos];
            used[perm[i]] = false;
            perm[i] = usize::MAX;
            continue;
        }
        let i = order[pos];
        let cands = &classes_b[&ca[i]];
        let mut advanced = false;
        while next[pos] < cands.len() {
            let c = cands[next[pos]];
            next[pos] += 1;
            if used[c] {
                continue;
            }
            *steps += 1;
            if *steps > budget {
                return None;
            }
            perm[i] = c;
            used[c] = true;
            if consistent(a, b, perm, i) {
                advanced = true;
                break;
            }
            perm[i] = usize::MAX;
            used[c] = false;
        }
        if advanced {
            pos += 1;
            if pos < n {
                next[pos] = 0;
            }
        } else {
            // exhausted this position
            next[pos] = 0;
            if pos == 0 {
                return Some(false);
            }
            pos -= 1;
            let j = order[pos];
            used[perm[j]] = false;
            perm[j] = usize::MAX;
        }
    }
}

#[cfg(test)]
mod tests {
    use super::*;
    #[test]
    fn iso_basic() {
        let mut a = OGraph::new();
        let mut b = OGraph::new();
        for _ in 0..3 {
            a.add_node();
            b.add_node();
        }
        a.nodes[0].attrs.insert("k".into(), MVal::Int(1));
        a.nodes[0].edges.insert(1, Attrs::new());
        b.nodes[2].attrs.insert("k".into(), MVal::Int(1));
        b.nodes[2].edges.insert(0, Attrs::new());
        assert_eq!(isomorphic(&a, &b, 1000), Iso::Same);
        b.nodes[2].edges.clear();
        b.nodes[1].edges.insert(0, Attrs::new());
        assert!(matches!(isomorphic(&a, &b, 1000), Iso::Different(_)));
    }
}
