//! C08 – lazy evaluation does not depend on the order of stanzas (differential between
//! permutations of one file's stanzas; all n! for n <= 5, sampled beyond).

use super::common::*;
use crate::gen::ast::*;
use crate::gen::dsl::GenCfg;
use crate::gen::print::print_house;
use crate::oracle::exec::{self, ExecOpts, Loaded, Real};
use crate::oracle::iso::{isomorphic, Iso};
use crate::oracle::tree::{parse_python, TreeInfo};
use crate::util::{Out, Rng};
use crate::{Prop, RunCfg, Tier};
use serde_json::json;

pub struct C08;

fn permutations(n: usize) -> Vec<Vec<usize>> {
    fn go(cur: &mut Vec<usize>, used: &mut Vec<bool>, n: usize, out: &mut Vec<Vec<usize>>) {
        if cur.len() == n {
            out.push(cur.clone());
            return;
        }
        for i in 0..n {
            if !used[i] {
                used[i] = true;
                cur.push(i);
                go(cur, used, n, out);
                cur.pop();
                used[i] = false;
            }
        }
    }
    let mut out = Vec::new();
    go(&mut Vec::new(), &mut vec![false; n], n, &mut out);
    out
}

pub fn permute_file(file: &GFile, perm: &[usize]) -> GFile {
    let stanzas: Vec<GStanza> = file.stanzas().into_iter().cloned().collect();
    let mut k = 0;
    let mut items = Vec::new();
    for it in &file.items {
        match it {
            Item::Stanza(_) => {
                items.push(Item::Stanza(stanzas[perm[k]].clone()));
                k += 1;
            }
            other => items.push(other.clone()),
        }
    }
    GFile { items }
}

/// Hand-shaped families on top of the generated programs: every stanza matches the same node
/// (`(module)`), so the order of the lazy statements is the order of the stanzas.
///  * `merge`: several stanzas set the same attribute of one shared graph node (values from a
///    palette with #null, equal and different values): every order must give the same outcome;
///  * `escape`: a mutable variable is read in an eagerly evaluated position of a loop body before
///    it is assigned a scoped variable. The checker rejects these today; whenever such a file is
///    accepted, every order must still give the same outcome.
pub fn family(rng: &mut Rng) -> (Vec<String>, &'static str) {
    const VALUES: &[&str] = &["#null", "1", "2", "\"a\"", "#true", "[]", "[1]", "@m", "(source-text @m)", "#null", "1"];
    let which = rng.below(10);
    if which == 9 {
        // escape hatch: a list / set comprehension or literal whose *element* reads a scoped
        // variable, in an eagerly evaluated position (rejected at load time today)
        let eager = *rng.pick(&[
            "for zz_j in [ @m.zz_v for zz_y in [1] ] { attr (zz_n) hit = zz_j }",
            "for zz_j in [ zz_y for zz_y in [ @m.zz_v for zz_z in [1, 2] ] ] { attr (zz_n) hit = zz_j }",
            "if (is-empty [ @m.zz_v for zz_y in [1] ]) { attr (zz_n) hit = 0 } else { attr (zz_n) hit = 1 }",
            "scan (join [ @m.zz_v for zz_y in [1] ]) { \"x\" { attr (zz_n) hit = $0 } }",
            "attr (zz_n) hit = [ zz_j for zz_j in { @m.zz_v for zz_y in [1] } ]",
            "for zz_j in [ @m.zz_v ] { attr (zz_n) hit = zz_j }",
        ]);
        let st = vec![format!("(module) @m {{ node zz_n {} }}", eager), "(module) @m { let @m.zz_v = \"x\" }".to_string(), "(module) @m { node zz_other attr (zz_other) v = @m.zz_v }".to_string()];
        return (st, "escape_scoped_element_of_a_comprehension_in_an_eager_position");
    }
    if which == 7 {
        // a dependency chain of 130-260 scoped variables, one per statement of the source, each
        // a call that reads its left neighbour; one stanza reads the far end, one reads them all
        let link = *rng.pick(&["(plus 1 @a.zz_idx)", "(plus @a.zz_idx 1)", "(plus 0 0 1 @a.zz_idx 0)", "(length (concat [1] [ @a.zz_idx ]))"]);
        let n = rng.range(130, 260);
        let source: String = (0..n).map(|i| format!("v{}\n", i)).collect();
        let st = vec![
            format!("__SOURCE__{}", source),
            "(module . (expression_statement) @first) { let @first.zz_idx = 0 }".to_string(),
            format!("(module (expression_statement) @a . (expression_statement) @b) {{ let @b.zz_idx = {} }}", link),
            "(module (expression_statement) @last .) @m { let @m.zz_tail = @last }".to_string(),
            // the two readers match the same node with the same pattern: which of them is
            // evaluated first follows the order of the stanzas
            "(module (expression_statement)* @_ss) @m { node n attr (n) far = @m.zz_tail.zz_idx }".to_string(),
            "(module (expression_statement)* @ss) @_m { for s in @ss { node n attr (n) i = s.zz_idx } }".to_string(),
        ];
        return (st, "long_chain_of_scoped_variables_read_from_both_ends");
    }
    if which == 8 {
        // `print` of a local that is bound to a scoped variable another stanza defines
        let user = *rng.pick(&[
            "(module) @m { let k = @m.zz_kind print k node n attr (n) k = k }",
            "(module) @m { let k = @m.zz_kind let j = k print \"kind\", j }",
            "(module) @m { let k = [ @m.zz_kind ] for e in [1] { print k, e } }",
        ]);
        let st = vec![user.to_string(), "(module) @m { let @m.zz_kind = (node-type @m) }".to_string(), "(module) @m { node r attr (r) kind = @m.zz_kind }".to_string()];
        return (st, "print_of_a_local_bound_to_a_forward_scoped_variable");
    }
    if which == 6 {
        // the scope of a definition is a local variable that holds another scoped variable's value
        let st = vec![
            "(module) @m { let @m.zz_inner = @m }".to_string(),
            "(module) @m { let zz_alias = @m.zz_inner node zz_alias.zz_made attr (zz_alias.zz_made) k = 1 }".to_string(),
            "(module) @m { node r edge r -> @m.zz_made }".to_string(),
        ];
        return (st, "definition_scope_through_a_local_alias");
    }
    if which == 4 {
        // two definitions of one scoped variable on one node (with or without `inherit`): a
        // duplicate in every order
        let inherit = rng.chance(1, 2);
        let v1 = *rng.pick(VALUES);
        let v2 = if rng.chance(1, 4) { v1 } else { *rng.pick(VALUES) };
        let mut st = Vec::new();
        st.push(format!("(module) @m {{ let @m.zz_x = {} }}", v1));
        st.push(format!("(module) @m {{ let @m.zz_x = {} }}", v2));
        st.push("(module (_) @c) { node n attr (n) seen = @c.zz_x }".to_string());
        let header = if inherit { "inherit .zz_x\n" } else { "" };
        // the header must stay first: glue it to every stanza list through a marker stanza
        let st: Vec<String> = st;
        return (std::iter::once(format!("__HEADER__{}", header)).chain(st.into_iter()).collect(), if inherit { "duplicate_inherited_scoped_variable" } else { "duplicate_scoped_variable" });
    }
    if which == 5 {
        // an attribute shorthand applied to a scoped variable that a later stanza defines
        // ... or used inside a list / set comprehension, a list / set literal, a call
        let user = *rng.pick(&[
            "(module) @m { node n attr (n) zz_tag = @m.zz_name }",
            "(module) @m { node n attr (n) zz_tag = @m.zz_name, vals = { @m.zz_name for q in [1, 2] } }",
            "(module) @m { node n attr (n) vals = [ (format \"{}{}\" q @m.zz_name) for q in [1, 2] ] }",
            "(module) @m { node n attr (n) vals = { (format \"{}\" @m.zz_name) for q in [1] }, lit = { @m.zz_name, \"y\" } }",
            "(module) @m { node n let v = [ @m.zz_name, \"z\" ] attr (n) vals = v, len = (length v) }",
        ]);
        let st = vec![
            "(module) @m { let @m.zz_name = \"x\" }".to_string(),
            user.to_string(),
            "(module) @m { node k attr (k) zz_tag = (source-text @m) }".to_string(),
        ];
        return (std::iter::once("__HEADER__attribute zz_tag = v => zz_t = v, zz_len = [v]\n".to_string()).chain(st.into_iter()).collect(), "forward_scoped_variable_in_shorthand_or_comprehension");
    }
    if which < 2 {
        let k = 2 + rng.below(2);
        let on_edge = rng.chance(1, 3);
        let mut st = vec!["(module) @m { node @m.zz_a node @m.zz_b }".to_string()];
        let first = *rng.pick(VALUES);
        for i in 0..k {
            let v = if i > 0 && rng.chance(1, 4) { first } else if i == 0 { first } else { *rng.pick(VALUES) };
            if on_edge {
                st.push(format!("(module) @m {{ edge @m.zz_a -> @m.zz_b attr (@m.zz_a -> @m.zz_b) zz_k = {} }}", v));
            } else {
                st.push(format!("(module) @m {{ attr (@m.zz_a) zz_k = {} }}", v));
            }
        }
        if !on_edge && rng.chance(1, 3) {
            // one stanza reaches the node through two matches (two children) with two values
            st.push("(module (_) @c) @m { attr (@m.zz_a) zz_k = (source-text @c) }".to_string());
            st.push("(module) @m { attr (@m.zz_a) zz_k = \"x = 1\" }".to_string());
            return (st, "merge_node_attribute_with_a_stanza_matching_twice");
        }
        (st, if on_edge { "merge_edge_attribute" } else { "merge_node_attribute" })
    } else {
        let (init, scoped, use_, name): (&str, &str, &str, &'static str) = match rng.below(4) {
            0 => ("\"a\"", "\"x\"", "if (eq zz_c \"x\") { attr (zz_n) hit = zz_i }", "escape_if_condition"),
            1 => ("\"a\"", "\"x\"", "scan zz_c { \"x\" { attr (zz_n) hit = zz_i } \"a\" { } }", "escape_scan_source"),
            2 => ("[]", "[7]", "for zz_j in zz_c { attr (zz_n) hit = zz_j }", "escape_for_source"),
            _ => ("[]", "[7]", "if (not (is-empty [ zz_j for zz_j in zz_c ])) { attr (zz_n) hit = zz_i }", "escape_comprehension_source"),
        };
        // the defining stanza's pattern may complete later than the reading one's for the same
        // node (then lazy evaluation meets the reader first, whatever the order in the file)
        let dq = *rng.pick(&["(module) @m", "(module) @m", "(module . (_) @_first) @m", "(module (_) @_last .) @m"]);
        let definer = format!("{} {{ let @m.zz_v = {} }}", dq, scoped);
        // optionally a local assignment first (the variable stays non-local all the same), or the
        // scoped assignment hidden in an arm that the first iteration does not take
        let pre = if rng.chance(1, 3) { format!("set zz_c = {} ", init) } else { String::new() };
        let assign = if rng.chance(1, 3) { "if (eq zz_i 1) { set zz_c = @m.zz_v }".to_string() } else { "set zz_c = @m.zz_v".to_string() };
        let reader = format!("(module) @m {{ node zz_n var zz_c = {} {}for zz_i in [1, 2, 3] {{ {} {} }} }}", init, pre, use_, assign);
        let mut st = vec![definer, reader];
        if rng.chance(1, 2) {
            st.push("(module) @m { node zz_other }".to_string());
        }
        (st, name)
    }
}

fn run_family(rng: &mut Rng, out: &mut Out) {
    let (mut stanzas, name) = family(rng);
    let mut header = String::new();
    if stanzas[0].starts_with("__HEADER__") {
        header = stanzas.remove(0)["__HEADER__".len()..].to_string();
    }
    let mut own_source: Option<String> = None;
    if stanzas[0].starts_with("__SOURCE__") {
        own_source = Some(stanzas.remove(0)["__SOURCE__".len()..].to_string());
    }
    let source: &str = match &own_source {
        Some(s) => s.as_str(),
        None => {
            if rng.chance(1, 2) {
                "pass\n"
            } else {
                "x = 1\ny = 2\n"
            }
        }
    };
    let tree = parse_python(source);
    let ti = TreeInfo::new(&tree);
    let functions = stdlib();
    let globals = std::collections::BTreeMap::new();
    let mut reference: Option<(Real, String)> = None;
    for perm in permutations(stanzas.len()) {
        let text: String = format!("{}{}", header, perm.iter().map(|i| stanzas[*i].as_str()).collect::<Vec<_>>().join("\n"));
        let file = match exec::load(&text) {
            Loaded::Ok(f) => f,
            Loaded::Err(_) => {
                out.eval();
                out.feat(&format!("family:{}:rejected_at_load", name));
                return;
            }
            Loaded::Panic(p) => {
                out.violation(&format!("C08:load-panic:{}", p.site_file()), &format!("loading panicked at {}: {}", p.location, p.message), case_json(&text, source, &globals));
                return;
            }
        };
        let rep = exec::execute(&file, &tree, source, &ti, &globals, &functions, &ExecOpts::new(true));
        out.eval();
        if let Real::Panic(p) = &rep.real {
            out.violation(&format!("C08:lazy-panic:{}", p.site_file()), &format!("lazy execution panicked at {}: {}", p.location, p.message), case_json(&text, source, &globals));
            return;
        }
        match &reference {
            None => reference = Some((rep.real, text)),
            Some((r0, text0)) => {
                let bad = match (r0, &rep.real) {
                    (Real::Graph(a), Real::Graph(b)) => match isomorphic(a, b, 200_000) {
                        Iso::Different(why) => Some(format!("graphs differ: {}", why)),
                        _ => None,
                    },
                    (Real::Graph(_), Real::Error(e, _)) => Some(format!("identity order succeeds, permutation {:?} fails: {}", perm, crate::util::trunc(&e.display, 300))),
                    (Real::Error(e, _), Real::Graph(_)) => Some(format!("identity order fails ({}), permutation {:?} succeeds", crate::util::trunc(&e.display, 300), perm)),
                    _ => None,
                };
                if let Some(msg) = bad {
                    let mut cj = case_json(text0, source, &globals);
                    cj["permutation"] = json!(perm);
                    cj["permuted_dsl"] = json!(text);
                    cj["first"] = json!(r0.brief());
                    cj["second"] = json!(rep.real.brief());
                    out.violation("C08:order-dependence", &msg, cj);
                    return;
                }
            }
        }
    }
    if let Some((r, text0)) = &reference {
        out.feat(&format!("family:{}:{}", name, if matches!(r, Real::Graph(_)) { "graph" } else { "error" }));
        out.nontrivial(case_hash(text0, source, &globals));
    }
}

impl Prop for C08 {
    fn id(&self) -> &'static str {
        "C08"
    }
    fn cases(&self, cfg: &RunCfg) -> usize {
        match cfg.tier {
            Tier::Quick => 60,
            Tier::Thorough => 3000,
        }
    }
    fn run_case(&self, _cfg: &RunCfg, idx: usize, rng: &mut Rng, out: &mut Out) {
        if idx % 4 == 3 {
            for _ in 0..6 {
                run_family(rng, out);
            }
            return;
        }
        let mut gcfg = GenCfg::order_insensitive();
        gcfg.forward_refs = true;
        gcfg.fault_pct = 10;
        gcfg.max_stanzas = 2 + rng.below(5);
        gcfg.print = false;
        let case = build_case(rng, &gcfg, 0, 10, 8);
        let n = case.prog.file.stanzas().len();
        if n < 2 {
            return;
        }
        let tree = parse_python(&case.source);
        let ti = TreeInfo::new(&tree);
        if let Some(a) = &ti.anomaly {
            out.inconclusive(&format!("tree-sitter anomaly: {}", a));
            return;
        }
        if let Ok(prep) = prepare(&case.prog.file, &tree, &case.source, &ti) {
            if prep.rootless > 0 || prep.shape_anomalies > 0 {
                out.inconclusive("match without root node / capture shape anomaly");
                return;
            }
        }
        let functions = stdlib();
        let perms: Vec<Vec<usize>> = if n <= 5 {
            out.feat(&format!("exhaustive_permutations_n{}", n));
            permutations(n)
        } else {
            out.feat(&format!("sampled_permutations_n{}", n));
            let mut ps = vec![(0..n).collect::<Vec<_>>()];
            for _ in 0..200 {
                let mut p: Vec<usize> = (0..n).collect();
                rng.shuffle(&mut p);
                ps.push(p);
            }
            ps
        };
        // 1 in 3 programs run with debug attributes (their values depend on the layout, so they
        // are stripped before graphs are compared)
        let with_debug = rng.chance(1, 3);
        const DBG: [&str; 3] = ["dbg_location", "dbg_variable", "dbg_match_node"];
        let mut reference: Option<(Real, String)> = None;
        let mut runs = 0u64;
        for perm in &perms {
            let mut f = permute_file(&case.prog.file, perm);
            f.number();
            let text = print_house(&mut f);
            let file = match exec::load(&text) {
                Loaded::Ok(f) => f,
                Loaded::Err(_) => {
                    out.feat("load_rejected");
                    return;
                }
                Loaded::Panic(p) => {
                    out.violation(&format!("C08:load-panic:{}", p.site_file()), &format!("loading panicked at {}: {}", p.location, p.message), case_json(&text, &case.source, &case.prog.globals));
                    return;
                }
            };
            let mut opts = ExecOpts::new(true);
            if with_debug {
                opts.debug_attrs = Some((DBG[0], DBG[1], DBG[2]));
            }
            let mut rep = exec::execute(&file, &tree, &case.source, &ti, &case.prog.globals, &functions, &opts);
            if with_debug {
                if let Real::Graph(g) = &rep.real {
                    rep.real = Real::Graph(g.without_attrs(&DBG));
                }
            }
            runs += 1;
            out.eval();
            if let Real::Panic(p) = &rep.real {
                out.violation(&format!("C08:lazy-panic:{}", p.site_file()), &format!("lazy execution panicked at {}: {}", p.location, p.message), case_json(&text, &case.source, &case.prog.globals));
                return;
            }
            if let Real::Unreadable(s) = &rep.real {
                out.violation("C08:unreadable-graph", s, case_json(&text, &case.source, &case.prog.globals));
                return;
            }
            match &reference {
                None => reference = Some((rep.real, text)),
                Some((r0, text0)) => {
                    let bad = match (r0, &rep.real) {
                        (Real::Graph(a), Real::Graph(b)) => match isomorphic(a, b, 200_000) {
                            Iso::Same => None,
                            Iso::Different(why) => Some(format!("graphs differ: {}", why)),
                            Iso::Unknown => {
                                out.inconclusive("isomorphism budget exhausted");
                                None
                            }
                        },
                        (Real::Error(..), Real::Error(..)) => None,
                        (Real::Graph(_), Real::Error(e, _)) => Some(format!("identity order succeeds, permutation {:?} fails: {}", perm, crate::util::trunc(&e.display, 300))),
                        (Real::Error(e, _), Real::Graph(_)) => Some(format!("identity order fails ({}), permutation {:?} succeeds", crate::util::trunc(&e.display, 300), perm)),
                        _ => None,
                    };
                    if let Some(msg) = bad {
                        let mut cj = case_json(text0, &case.source, &case.prog.globals);
                        cj["permutation"] = json!(perm);
                        cj["permuted_dsl"] = json!(text);
                        cj["first"] = json!(r0.brief());
                        cj["second"] = json!(rep.real.brief());
                        out.violation("C08:order-dependence", &msg, cj);
                        return;
                    }
                }
            }
        }
        out.feat("programs");
        if with_debug {
            out.feat("programs_with_debug_attributes");
        }
        out.feat_n("permutation_runs", runs);
        if let Some((r, text0)) = &reference {
            match r {
                Real::Graph(g) => {
                    out.feat("outcome:graph");
                    if g.nodes.len() >= 2 {
                        out.nontrivial(case_hash(text0, &case.source, &case.prog.globals));
                    }
                }
                Real::Error(e, _) => {
                    out.feat("outcome:error");
                    out.feat(&format!("error:{}", e.root));
                    out.nontrivial(case_hash(text0, &case.source, &case.prog.globals));
                }
                _ => {}
            }
            if out.want_sample() {
                let mut cj = case_json(text0, &case.source, &case.prog.globals);
                cj["permutations_run"] = json!(runs);
                cj["outcome"] = json!(r.brief());
                out.sample(cj);
            }
        }
        for f in &case.prog.features {
            out.feat(&format!("gen:{}", f));
        }
    }
}
