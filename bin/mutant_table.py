#!/usr/bin/env python3
"""Regenerate the seeded-change table in DESIGN.md from seeded/*/detect.json."""
import json, glob, os, re
rows=[]
for d in sorted(glob.glob('/verif/seeded/*')):
    name=os.path.basename(d)
    if not os.path.exists(d+'/patch.diff'): continue
    meta=json.load(open(d+'/meta.json')) if os.path.exists(d+'/meta.json') else {}
    det=json.load(open(d+'/detect.json')) if os.path.exists(d+'/detect.json') else {}
    what=(meta.get('summary') or meta.get('what_fails_without_the_fix') or '')
    what=re.sub(r'\s+',' ',what)[:150]
    caught=[]; missed=[]
    for p,c in sorted(det.get('checks',{}).items()):
        if c['exit']==1:
            sigs=sorted(set(s.split(':',1)[1] if ':' in s else s for s in c['signatures']))[:2]
            caught.append('%s (%s)'%(p, ', '.join(sigs)))
        elif c['exit']==0: missed.append(p)
        else: missed.append('%s [exit %s]'%(p,c['exit']))
    rows.append('| %s | %s | %s | %s |'%(name, what.replace('|','/'), '; '.join(caught) or '–', ', '.join(missed) or '–'))
table='| seeded change | what it does | caught by (quick check: signatures) | not caught by |\n|---|---|---|---|\n'+'\n'.join(rows)
s=open('/verif/DESIGN.md').read()
s=re.sub(r'<!-- MUTANT-TABLE-BEGIN -->.*<!-- MUTANT-TABLE-END -->','<!-- MUTANT-TABLE-BEGIN -->\n'+table.replace('\\','\\\\')+'\n<!-- MUTANT-TABLE-END -->',s,flags=re.S)
open('/verif/DESIGN.md','w').write(s)
own_caught=sum(1 for d in glob.glob('/verif/seeded/*/detect.json') if any(c['exit']==1 for c in json.load(open(d))['checks'].values()))
print(len(rows),'rows;', own_caught,'caught by at least one check')
