//! Typed, environment-tracking generator of DSL programs (its own AST, never the crate's).
//!
//! It tracks for every local its static type, mutability and locality so that most programs
//! load and run to completion, while the rest fail for reasons the reference model predicts.

use super::ast::*;
use super::query::{quant_of, QueryShape, POOL};
use crate::model::value::MVal;
use crate::util::Rng;
use std::collections::BTreeMap;

#[derive(Clone, Debug, PartialEq, Eq)]
pub enum Ty {
    Null,
    Bool,
    Int,
    Str,
    Syn,
    OptSyn,
    OptStr,
    GNode,
    List(Box<Ty>),
    Set(Box<Ty>),
}

impl Ty {
    /// may be passed to format / join (no graph nodes: numbering is not part of the contract;
    /// no sets: their order is unspecified)
    fn renderable(&self) -> bool {
        match self {
            Ty::GNode | Ty::Set(_) => false,
            Ty::List(t) => t.renderable(),
            _ => true,
        }
    }
}

#[derive(Clone, Copy, Debug, PartialEq, Eq)]
pub enum Sharing {
    /// created by this block run
    Fresh,
    /// one per syntax node (non-inherited scoped variable on a capture)
    PerNode,
    /// shared between many matches (inherited variable, global)
    Shared,
}

#[derive(Clone, Debug)]
struct LVar {
    name: String,
    ty: Ty,
    mutable: bool,
    /// checker-level locality (does not depend on scoped or mutable variables)
    local: bool,
    /// shape as the static checker sees it
    opt_shape: bool,
    list_shape: bool,
    sharing: Sharing,
    /// scope depth at which it was declared
    depth: usize,
}

#[derive(Clone, Debug)]
pub struct ScopedSchema {
    pub name: String,
    pub kind: &'static str,
    pub ty: Ty,
    pub inherited: bool,
    pub mutable: bool,
}

#[derive(Clone, Debug)]
pub struct GenCfg {
    pub max_stanzas: usize,
    pub max_depth: usize,
    pub max_stmts: usize,
    /// allow `var`/`set` on scoped variables (strict only)
    pub scoped_mut: bool,
    /// percent of programs that get one runtime fault injected
    pub fault_pct: usize,
    pub shorthands: bool,
    pub print: bool,
    pub scan_bias: usize,
    /// readers of scoped variables may come before definers (lazy only)
    pub forward_refs: bool,
    /// restrict to queries from these pool indices (empty = all exec_safe)
    pub pool_filter: Vec<usize>,
    pub keyword_names: bool,
    /// percent of programs in which 1-2 random expressions are replaced by random ill-typed ones
    pub ast_mutation_pct: usize,
}

impl GenCfg {
    pub fn strict_full() -> GenCfg {
        GenCfg {
            max_stanzas: 6,
            max_depth: 4,
            max_stmts: 6,
            scoped_mut: true,
            fault_pct: 12,
            shorthands: true,
            print: true,
            scan_bias: 1,
            forward_refs: false,
            pool_filter: vec![],
            keyword_names: true,
            ast_mutation_pct: 6,
        }
    }
    /// thorough tier: one case in five leaves the usual bounds (nesting to depth 6, up to 12
    /// stanzas, up to 8 statements per block); returns whether it did
    pub fn deepen(&mut self, rng: &mut Rng) -> bool {
        if rng.chance(1, 5) {
            self.max_depth = 6;
            self.max_stanzas = 12;
            self.max_stmts = 8;
            true
        } else {
            false
        }
    }
    pub fn order_insensitive() -> GenCfg {
        GenCfg {
            scoped_mut: false,
            ..GenCfg::strict_full()
        }
    }
}

#[derive(Clone, Debug)]
pub struct GenProgram {
    pub file: GFile,
    pub globals: BTreeMap<String, MVal>,
    pub fault: Option<String>,
    pub features: Vec<&'static str>,
}

const KEYWORD_PREFIXES: &[&str] = &[
    "something", "none_left", "some-thing", "format", "for_x", "in_list", "iffy", "letter",
    "variable", "settings", "nodes", "elif_x", "else_y", "true", "null", "global_x", "inherited",
    "scanner", "printer", "edges", "attrs",
];

pub const REGEX_POOL: &[(&str, usize)] = &[
    ("[a-z]+", 1),
    ("([^/]+)/", 2),
    ("([a-z])([0-9])?", 3),
    ("\\.py$", 1),
    ("_+", 1),
    ("(é|ü)+", 2),
    ("[0-9]+", 1),
    ("(\\w+)\\.(\\w+)", 3),
    ("\\s+", 1),
    ("[A-Z][a-z]*", 1),
    ("(a)|(b)", 3),
    ("\\(", 1),
];

const STR_POOL: &[&str] = &[
    "", "a", "src/pkg/mod.py", "héllo wörld", "x1 y2 z", "a_b__c", "日本 語", "{}", "A.b c.d",
    "tab\there", "line\nbreak", "quote\"d", "back\\slash", "foo(bar)", "astral 😀 text", "𝓧y",
];

struct Gen<'r> {
    rng: &'r mut Rng,
    cfg: GenCfg,
    counter: usize,
    globals: Vec<(String, Quant, Option<String>, Ty)>,
    schema: Vec<ScopedSchema>,
    shorthands: Vec<(String, Ty)>,
    /// edges created for every node of a kind by an earlier stanza: (kind, source var, sink var)
    edge_schema: Vec<(&'static str, String, String)>,
    features: Vec<&'static str>,
}

struct Ctx {
    scopes: Vec<Vec<LVar>>,
    caps: Vec<(String, Quant, &'static [&'static str])>,
    regex_groups: Option<usize>,
    /// edges created by this block run: (source expr, sink expr)
    edges: Vec<(GExpr, GExpr)>,
    used_caps: Vec<String>,
    in_loop: bool,
    /// names declared in blocks that are closed by now (candidates for reuse in sibling blocks)
    closed: Vec<String>,
    stanza_index: usize,
}

impl Ctx {
    fn vars(&self) -> impl Iterator<Item = &LVar> {
        self.scopes.iter().flat_map(|s| s.iter())
    }
    fn visible(&self, name: &str) -> Option<&LVar> {
        for s in self.scopes.iter().rev() {
            if let Some(v) = s.iter().find(|v| v.name == name) {
                return Some(v);
            }
        }
        None
    }
}

impl<'r> Gen<'r> {
    fn fresh(&mut self, prefix: &str) -> String {
        self.counter += 1;
        if self.cfg.keyword_names && self.rng.chance(1, 6) {
            let p = *self.rng.pick(KEYWORD_PREFIXES);
            format!("{}{}", p, self.counter)
        } else {
            format!("{}{}", prefix, self.counter)
        }
    }

    fn feature(&mut self, f: &'static str) {
        if !self.features.contains(&f) {
            self.features.push(f);
        }
    }

    fn use_cap(&mut self, ctx: &mut Ctx, name: &str) -> GExpr {
        if !ctx.used_caps.iter().any(|c| c == name) {
            ctx.used_caps.push(name.to_string());
        }
        GExpr::cap(name)
    }

    // --------------------------------------------------------------------------------------
    // expressions

    fn random_ty(&mut self, depth: usize) -> Ty {
        match self.rng.below(if depth > 1 { 6 } else { 9 }) {
            0 => Ty::Bool,
            1 | 2 => Ty::Int,
            3 | 4 => Ty::Str,
            5 => Ty::Null,
            6 => Ty::List(Box::new(self.random_ty(depth + 1))),
            7 => Ty::Set(Box::new(self.random_ty(depth + 2))),
            _ => Ty::Syn,
        }
    }

    fn literal(&mut self, ty: &Ty, depth: usize) -> GExpr {
        match ty {
            Ty::Null | Ty::OptSyn | Ty::OptStr => GExpr::Null,
            Ty::Bool => {
                if self.rng.chance(1, 2) {
                    GExpr::True
                } else {
                    GExpr::False
                }
            }
            Ty::Int => GExpr::Int(match self.rng.below(8) {
                0 => 0,
                1 => 1,
                2 => 4294967295,
                3 => 4294967294,
                _ => self.rng.below(1000) as u32,
            }),
            Ty::Str => GExpr::Str(self.rng.pick(STR_POOL).to_string()),
            Ty::List(t) => {
                let n = if depth > 2 { 0 } else { self.rng.below(4) };
                GExpr::List((0..n).map(|_| self.literal(t, depth + 1)).collect())
            }
            Ty::Set(t) => {
                let n = if depth > 2 { 0 } else { self.rng.below(4) };
                GExpr::Set((0..n).map(|_| self.literal(t, depth + 1)).collect())
            }
            // no literal exists: callers never ask for these without a fallback
            Ty::Syn | Ty::GNode => GExpr::Null,
        }
    }

    /// candidates in the environment with exactly this type
    fn var_candidates(&self, ctx: &Ctx, ty: &Ty, need_local: bool) -> Vec<String> {
        let mut out = Vec::new();
        for v in ctx.vars() {
            if &v.ty == ty && (!need_local || v.local) {
                // shadowed?
                if ctx.visible(&v.name).map(|w| w.depth) == Some(v.depth) {
                    out.push(v.name.clone());
                }
            }
        }
        for (name, _, _, gty) in &self.globals {
            if gty == ty {
                out.push(name.clone());
            }
        }
        out
    }

    fn syn_sources(&self, ctx: &Ctx) -> Vec<String> {
        ctx.caps
            .iter()
            .filter(|(_, q, _)| *q == Quant::One)
            .map(|(n, _, _)| n.clone())
            .collect()
    }

    /// an expression of syntax-node type, if the context has one
    fn syn_expr(&mut self, ctx: &mut Ctx, need_local: bool) -> Option<GExpr> {
        let mut opts: Vec<GExpr> = Vec::new();
        for c in self.syn_sources(ctx) {
            opts.push(GExpr::cap(&c));
        }
        for v in self.var_candidates(ctx, &Ty::Syn, need_local) {
            opts.push(GExpr::var(&v));
        }
        if opts.is_empty() {
            return None;
        }
        let e = opts[self.rng.below(opts.len())].clone();
        if let GExpr::Capture(n, _) = &e {
            let n = n.clone();
            return Some(self.use_cap(ctx, &n));
        }
        Some(e)
    }

    /// scoped variables readable on this syntax expression with the given type
    fn scoped_reads(&self, ctx: &Ctx, ty: &Ty) -> Vec<(String, String)> {
        let mut out = Vec::new();
        for (cname, q, kinds) in &ctx.caps {
            if *q != Quant::One {
                continue;
            }
            for s in &self.schema {
                if &s.ty != ty {
                    continue;
                }
                let kinds_ok = !kinds.is_empty() && kinds.iter().all(|k| *k == s.kind);
                if s.inherited || kinds_ok {
                    out.push((cname.clone(), s.name.clone()));
                }
            }
        }
        out
    }

    fn expr(&mut self, ty: &Ty, ctx: &mut Ctx, depth: usize, need_local: bool) -> GExpr {
        // variables / globals of the right type
        let cands = self.var_candidates(ctx, ty, need_local);
        if !cands.is_empty() && self.rng.chance(2, 5) {
            let n = cands[self.rng.below(cands.len())].clone();
            return GExpr::var(&n);
        }
        if !need_local && self.rng.chance(1, 4) {
            let reads = self.scoped_reads(ctx, ty);
            if !reads.is_empty() {
                let (c, n) = reads[self.rng.below(reads.len())].clone();
                self.feature("scoped_read");
                let scope = self.use_cap(ctx, &c);
                return GExpr::scoped(scope, &n);
            }
        }
        let deep = depth >= 3;
        match ty {
            Ty::Null => GExpr::Null,
            Ty::Bool => {
                if deep {
                    return self.literal(ty, depth);
                }
                match self.rng.below(8) {
                    0 => {
                        let t = self.simple_ty();
                        let a = self.expr(&t, ctx, depth + 1, need_local);
                        let b = self.expr(&t, ctx, depth + 1, need_local);
                        GExpr::call("eq", vec![a, b])
                    }
                    1 => {
                        let t = if self.rng.chance(1, 2) { Ty::OptSyn } else { self.simple_ty() };
                        let a = self.expr(&t, ctx, depth + 1, need_local);
                        GExpr::call("is-null", vec![a])
                    }
                    2 => {
                        let a = self.expr(&Ty::Bool, ctx, depth + 1, need_local);
                        GExpr::call("not", vec![a])
                    }
                    3 => {
                        let n = self.rng.below(4);
                        let args = (0..n)
                            .map(|_| self.expr(&Ty::Bool, ctx, depth + 1, need_local))
                            .collect();
                        GExpr::call(if self.rng.chance(1, 2) { "and" } else { "or" }, args)
                    }
                    4 => {
                        let t = Ty::List(Box::new(self.simple_ty()));
                        let a = self.expr(&t, ctx, depth + 1, need_local);
                        GExpr::call("is-empty", vec![a])
                    }
                    _ => self.literal(ty, depth),
                }
            }
            Ty::Int => {
                if deep {
                    return self.literal(ty, depth);
                }
                match self.rng.below(9) {
                    0 => {
                        let n = self.rng.below(4);
                        let args = (0..n)
                            .map(|_| {
                                if self.rng.chance(1, 2) {
                                    GExpr::Int(self.rng.below(100) as u32)
                                } else {
                                    self.expr(&Ty::Int, ctx, depth + 2, need_local)
                                }
                            })
                            .collect();
                        GExpr::call("plus", args)
                    }
                    1 => {
                        let t = Ty::List(Box::new(self.simple_ty()));
                        let a = self.expr(&t, ctx, depth + 1, need_local);
                        GExpr::call("length", vec![a])
                    }
                    2 | 3 => match self.syn_expr(ctx, need_local) {
                        Some(s) => {
                            let not_root = match &s {
                                GExpr::Capture(n, _) => ctx.caps.iter().any(|(c, _, k)| c == n && !k.is_empty() && !k.contains(&"module")),
                                _ => false,
                            };
                            let f = if not_root && self.rng.chance(1, 3) {
                                self.feature("named_child_index");
                                "named-child-index"
                            } else {
                                *self.rng.pick(&["start-row", "start-column", "end-row", "end-column", "named-child-count"])
                            };
                            GExpr::call(f, vec![s])
                        }
                        None => self.literal(ty, depth),
                    },
                    _ => self.literal(ty, depth),
                }
            }
            Ty::Str => {
                if let Some(n) = ctx.regex_groups {
                    if self.rng.chance(1, 3) {
                        self.feature("regex_capture");
                        return GExpr::RegexCap(self.rng.below(n));
                    }
                }
                if deep {
                    return self.literal(ty, depth);
                }
                match self.rng.below(10) {
                    0 | 1 => match self.syn_expr(ctx, need_local) {
                        Some(s) => GExpr::call(
                            if self.rng.chance(3, 4) { "source-text" } else { "node-type" },
                            vec![s],
                        ),
                        None => self.literal(ty, depth),
                    },
                    2 | 3 => {
                        // format with placeholders and escaped braces
                        let n = self.rng.below(3);
                        let mut fmt = String::new();
                        let mut args = Vec::new();
                        for i in 0..n {
                            fmt.push_str(*self.rng.pick(&["", "a", "{{", "}}", " : ", "é"]));
                            fmt.push_str("{}");
                            if self.rng.chance(1, 8) {
                                // a set whose rendering does not depend on element order: empty,
                                // one element, or one literal written twice
                                let et = match self.rng.below(4) {
                                    0 => Ty::Int,
                                    1 => Ty::Bool,
                                    _ => Ty::Str,
                                };
                                let e = self.literal(&et, depth + 1);
                                let k = self.rng.below(3);
                                self.feature("format_of_small_set");
                                args.push(GExpr::Set(vec![e; k]));
                            } else {
                                let t = self.renderable_ty();
                                args.push(self.expr(&t, ctx, depth + 1, need_local));
                            }
                            let _ = i;
                        }
                        fmt.push_str(*self.rng.pick(&["", "!", "{{}}", "}}"]));
                        let mut all = vec![GExpr::Str(fmt)];
                        all.extend(args);
                        GExpr::call("format", all)
                    }
                    4 => {
                        let text = self.expr(&Ty::Str, ctx, depth + 1, need_local);
                        let (pat, rep) = *self.rng.pick(&[
                            ("[aeiou]", "_"),
                            ("(\\w+)/", "$1."),
                            ("^", ">"),
                            ("é", "e"),
                            ("\\d+", "#"),
                        ]);
                        GExpr::call("replace", vec![text, GExpr::str(pat), GExpr::str(rep)])
                    }
                    5 => {
                        let t = Ty::List(Box::new(self.scalar_renderable_ty()));
                        let l = self.expr(&t, ctx, depth + 1, need_local);
                        if self.rng.chance(1, 2) {
                            GExpr::call("join", vec![l])
                        } else {
                            let sep = *self.rng.pick(&[", ", ".", "", "→"]);
                            GExpr::call("join", vec![l, GExpr::str(sep)])
                        }
                    }
                    _ => self.literal(ty, depth),
                }
            }
            Ty::Syn => match self.syn_expr(ctx, need_local) {
                Some(s) => s,
                None => GExpr::Null, // ill-typed on purpose when nothing is available
            },
            Ty::OptSyn => {
                let opts: Vec<String> = ctx
                    .caps
                    .iter()
                    .filter(|(_, q, _)| *q == Quant::Opt)
                    .map(|(n, _, _)| n.clone())
                    .collect();
                if !opts.is_empty() {
                    let n = opts[self.rng.below(opts.len())].clone();
                    self.use_cap(ctx, &n)
                } else if self.rng.chance(1, 2) {
                    GExpr::Null
                } else {
                    match self.syn_expr(ctx, need_local) {
                        Some(s) => s,
                        None => GExpr::Null,
                    }
                }
            }
            Ty::OptStr => {
                if self.rng.chance(1, 2) {
                    GExpr::Null
                } else {
                    self.literal(&Ty::Str, depth)
                }
            }
            Ty::GNode => {
                self.feature("node_call");
                GExpr::call("node", vec![])
            }
            Ty::List(t) => {
                if **t == Ty::Syn {
                    let opts: Vec<String> = ctx
                        .caps
                        .iter()
                        .filter(|(_, q, _)| q.is_list())
                        .map(|(n, _, _)| n.clone())
                        .collect();
                    if !opts.is_empty() && self.rng.chance(3, 4) {
                        let n = opts[self.rng.below(opts.len())].clone();
                        return self.use_cap(ctx, &n);
                    }
                }
                if deep {
                    return self.literal(ty, depth);
                }
                match self.rng.below(6) {
                    0 => {
                        let a = self.expr(ty, ctx, depth + 1, need_local);
                        let b = self.expr(ty, ctx, depth + 1, need_local);
                        GExpr::call("concat", vec![a, b])
                    }
                    1 | 2 => self.comprehension(ty, t, ctx, depth, true, need_local),
                    _ => {
                        let n = self.rng.below(4);
                        GExpr::List(
                            (0..n)
                                .map(|_| self.expr(t, ctx, depth + 1, need_local))
                                .collect(),
                        )
                    }
                }
            }
            Ty::Set(t) => {
                if deep {
                    return self.literal(ty, depth);
                }
                if self.rng.chance(1, 3) {
                    self.comprehension(ty, t, ctx, depth, false, need_local)
                } else {
                    let n = self.rng.below(4);
                    GExpr::Set(
                        (0..n)
                            .map(|_| self.expr(t, ctx, depth + 1, need_local))
                            .collect(),
                    )
                }
            }
        }
    }

    fn simple_ty(&mut self) -> Ty {
        match self.rng.below(4) {
            0 => Ty::Bool,
            1 => Ty::Int,
            2 => Ty::Str,
            _ => Ty::Int,
        }
    }

    fn scalar_renderable_ty(&mut self) -> Ty {
        match self.rng.below(5) {
            0 => Ty::Bool,
            1 => Ty::Int,
            2 => Ty::Str,
            3 => Ty::Null,
            _ => Ty::Syn,
        }
    }

    fn renderable_ty(&mut self) -> Ty {
        if self.rng.chance(1, 5) {
            Ty::List(Box::new(self.scalar_renderable_ty()))
        } else {
            self.scalar_renderable_ty()
        }
    }

    /// a list-shaped *local* source expression together with its element type
    fn list_source(&mut self, ctx: &mut Ctx, depth: usize) -> (GExpr, Ty) {
        // list captures
        let caps: Vec<String> = ctx
            .caps
            .iter()
            .filter(|(_, q, _)| q.is_list())
            .map(|(n, _, _)| n.clone())
            .collect();
        if !caps.is_empty() && self.rng.chance(1, 2) {
            let n = caps[self.rng.below(caps.len())].clone();
            self.feature("for_over_capture");
            return (self.use_cap(ctx, &n), Ty::Syn);
        }
        // list-shaped local variables and globals
        let mut vars: Vec<(String, Ty)> = Vec::new();
        for v in ctx.vars() {
            if let Ty::List(t) = &v.ty {
                if v.local && v.list_shape && ctx.visible(&v.name).map(|w| w.depth) == Some(v.depth) {
                    vars.push((v.name.clone(), (**t).clone()));
                }
            }
        }
        for (name, q, _, ty) in &self.globals {
            if q.is_list() {
                if let Ty::List(t) = ty {
                    vars.push((name.clone(), (**t).clone()));
                }
            }
        }
        if !vars.is_empty() && self.rng.chance(1, 2) {
            let (n, t) = vars[self.rng.below(vars.len())].clone();
            return (GExpr::var(&n), t);
        }
        let t = match self.rng.below(4) {
            0 => Ty::Int,
            1 => Ty::Str,
            2 => Ty::Bool,
            _ => Ty::Int,
        };
        if depth < 2 && self.rng.chance(1, 4) {
            let lt = Ty::List(Box::new(t.clone()));
            let e = self.comprehension(&lt, &t, ctx, depth + 1, true, true);
            return (e, t);
        }
        let n = self.rng.below(4);
        let xs = (0..n).map(|_| self.expr(&t, ctx, depth + 2, true)).collect();
        (GExpr::List(xs), t)
    }

    /// `[ elem for x in src ]` producing elements of type `t`
    fn comprehension(&mut self, _ty: &Ty, t: &Ty, ctx: &mut Ctx, depth: usize, list: bool, need_local: bool) -> GExpr {
        self.feature("comprehension");
        let (src, et) = self.list_source(ctx, depth + 1);
        let var = self.fresh("x");
        ctx.scopes.push(vec![LVar {
            name: var.clone(),
            ty: et.clone(),
            mutable: false,
            local: true,
            opt_shape: false,
            list_shape: false,
            sharing: Sharing::Shared,
            depth: ctx.scopes.len(),
        }]);
        let elem = if &et == t && self.rng.chance(1, 2) {
            GExpr::var(&var)
        } else {
            self.expr(t, ctx, depth + 1, need_local)
        };
        ctx.scopes.pop();
        if list {
            GExpr::ListComp {
                elem: Box::new(elem),
                var: GUVar::new(&var),
                src: Box::new(src),
                loc: Loc::default(),
            }
        } else {
            GExpr::SetComp {
                elem: Box::new(elem),
                var: GUVar::new(&var),
                src: Box::new(src),
                loc: Loc::default(),
            }
        }
    }

    // --------------------------------------------------------------------------------------
    // statements

    fn gnode_exprs(&self, ctx: &Ctx) -> Vec<(GExpr, Sharing)> {
        let mut out: Vec<(GExpr, Sharing)> = Vec::new();
        for v in ctx.vars() {
            if v.ty == Ty::GNode && ctx.visible(&v.name).map(|w| w.depth) == Some(v.depth) {
                out.push((GExpr::var(&v.name), v.sharing));
            }
        }
        for (c, n) in self.scoped_reads(ctx, &Ty::GNode) {
            let inherited = self.schema.iter().any(|s| s.name == n && s.inherited);
            out.push((
                GExpr::scoped(GExpr::cap(&c), &n),
                if inherited { Sharing::Shared } else { Sharing::PerNode },
            ));
        }
        out
    }

    fn mark_caps_in(&mut self, ctx: &mut Ctx, e: &GExpr) {
        match e {
            GExpr::Capture(n, _) => {
                let n = n.clone();
                self.use_cap(ctx, &n);
            }
            GExpr::Var(GVar::Scoped(s, _, _)) => self.mark_caps_in(ctx, s),
            GExpr::Call(_, args) | GExpr::List(args) | GExpr::Set(args) => {
                for a in args {
                    self.mark_caps_in(ctx, a);
                }
            }
            _ => {}
        }
    }

    fn pick_gnode(&mut self, ctx: &mut Ctx, prefer_fresh: bool) -> Option<(GExpr, Sharing)> {
        let all = self.gnode_exprs(ctx);
        if all.is_empty() {
            return None;
        }
        let fresh: Vec<&(GExpr, Sharing)> = all.iter().filter(|(_, s)| *s == Sharing::Fresh).collect();
        let pick = if prefer_fresh && !fresh.is_empty() && self.rng.chance(4, 5) {
            (*fresh[self.rng.below(fresh.len())]).clone()
        } else {
            all[self.rng.below(all.len())].clone()
        };
        self.mark_caps_in(ctx, &pick.0);
        Some(pick)
    }

    fn attr_list(&mut self, ctx: &mut Ctx, depth: usize, sharing: Sharing) -> Vec<GAttr> {
        let n = self.rng.range(1, 3);
        let mut out = Vec::new();
        for _ in 0..n {
            if !self.shorthands.is_empty() && self.rng.chance(1, 5) {
                let (name, ty) = self.shorthands[self.rng.below(self.shorthands.len())].clone();
                if ty == Ty::GNode && sharing != Sharing::Fresh {
                    continue;
                }
                self.feature("shorthand_use");
                let value = if sharing == Sharing::Fresh {
                    self.expr(&ty, ctx, depth + 1, false)
                } else {
                    self.literal(&ty, 1)
                };
                out.push(GAttr {
                    name,
                    value: Some(value),
                });
                continue;
            }
            let name = self.fresh("a");
            if self.rng.chance(1, 8) {
                out.push(GAttr { name, value: None });
                continue;
            }
            let ty = self.random_ty(0);
            let value = match sharing {
                Sharing::Fresh => self.expr(&ty, ctx, depth + 1, false),
                Sharing::PerNode => {
                    if ctx.in_loop {
                        self.const_literal(&ty)
                    } else {
                        self.expr(&ty, ctx, depth + 1, false)
                    }
                }
                Sharing::Shared => self.const_literal(&ty),
            };
            out.push(GAttr {
                name,
                value: Some(value),
            });
        }
        if out.is_empty() {
            // an attr statement needs at least one attribute
            let name = self.fresh("a");
            out.push(GAttr { name, value: None });
        }
        // the same attribute twice in ONE statement: equal value is accepted, a different one
        // must make the run fail (in both modes, on nodes and on edges)
        if self.rng.chance(1, 30) {
            let first = out[0].clone();
            if !self.shorthands.iter().any(|(n, _)| *n == first.name) {
                let same = self.rng.chance(1, 2);
                let value = if same {
                    match &first.value {
                        Some(v) if !matches!(v, GExpr::Call(..) | GExpr::ListComp { .. } | GExpr::SetComp { .. } | GExpr::List(_) | GExpr::Set(_)) => Some(v.clone()),
                        None => None,
                        _ => Some(GExpr::str("certainly different 1")),
                    }
                } else {
                    Some(GExpr::str("certainly different 2"))
                };
                out.push(GAttr { name: first.name, value });
                self.feature("attribute_twice_in_one_statement");
            }
        }
        out
    }

    /// a literal that evaluates to the same value on every execution
    fn const_literal(&mut self, ty: &Ty) -> GExpr {
        match ty {
            Ty::Syn | Ty::GNode => GExpr::Int(7),
            t => self.literal(t, 1),
        }
    }

    fn declare(&mut self, ctx: &mut Ctx, name: &str, ty: Ty, mutable: bool, local: bool, value: Option<&GExpr>, sharing: Sharing) {
        let (opt_shape, list_shape) = match value {
            Some(GExpr::Capture(c, _)) => {
                let q = ctx.caps.iter().find(|(n, _, _)| n == c).map(|(_, q, _)| *q);
                (q == Some(Quant::Opt), q.map(|q| q.is_list()).unwrap_or(false))
            }
            Some(GExpr::List(_)) | Some(GExpr::Set(_)) | Some(GExpr::ListComp { .. }) | Some(GExpr::SetComp { .. }) => (false, true),
            Some(GExpr::Var(GVar::Unscoped(u))) => {
                if let Some(v) = ctx.visible(&u.name) {
                    (v.opt_shape, v.list_shape)
                } else if let Some((_, q, _, _)) = self.globals.iter().find(|(n, _, _, _)| *n == u.name) {
                    (*q == Quant::Opt, q.is_list())
                } else {
                    (false, false)
                }
            }
            _ => (false, false),
        };
        let depth = ctx.scopes.len() - 1;
        ctx.scopes.last_mut().unwrap().push(LVar {
            name: name.to_string(),
            ty,
            mutable,
            local: local && !mutable,
            opt_shape,
            list_shape,
            sharing,
            depth,
        });
    }

    /// is this expression local in the checker's sense, given the environment?
    fn is_local(&self, ctx: &Ctx, e: &GExpr) -> bool {
        match e {
            GExpr::Var(GVar::Scoped(..)) => false,
            GExpr::Var(GVar::Unscoped(u)) => match ctx.visible(&u.name) {
                Some(v) => v.local,
                None => true,
            },
            GExpr::List(xs) | GExpr::Set(xs) | GExpr::Call(_, xs) => xs.iter().all(|x| self.is_local(ctx, x)),
            GExpr::ListComp { elem, src, .. } | GExpr::SetComp { elem, src, .. } => {
                self.is_local(ctx, src) && self.is_local_elem(ctx, elem)
            }
            _ => true,
        }
    }

    fn is_local_elem(&self, ctx: &Ctx, e: &GExpr) -> bool {
        // the loop variable itself is local (its source must be); everything else as usual
        match e {
            GExpr::Var(GVar::Unscoped(u)) if ctx.visible(&u.name).is_none() => true,
            other => self.is_local(ctx, other),
        }
    }

    fn block(&mut self, ctx: &mut Ctx, depth: usize, min: usize) -> Vec<GStmt> {
        ctx.scopes.push(Vec::new());
        let saved_edges = ctx.edges.len();
        let n = self.rng.range(min, self.cfg.max_stmts.max(min));
        let n = if depth >= 2 { n.min(3) } else { n };
        let mut out = Vec::new();
        for _ in 0..n {
            if let Some(s) = self.stmt(ctx, depth) {
                out.push(s);
            }
        }
        ctx.edges.truncate(saved_edges);
        if let Some(closed) = ctx.scopes.pop() {
            for v in closed {
                if v.ty != Ty::GNode || true {
                    ctx.closed.push(v.name);
                }
            }
        }
        out
    }

    fn stmt(&mut self, ctx: &mut Ctx, depth: usize) -> Option<GStmt> {
        let can_nest = depth < self.cfg.max_depth;
        let roll = self.rng.below(100);
        let scan_w = 6 * self.cfg.scan_bias;
        // weights: node 14, attr-node 22, edge 10, attr-edge 6, let 12, var 5, set 5,
        // print 3, if 8, for 7, scan 6, scoped-let 2
        let kind = if roll < 14 {
            "node"
        } else if roll < 36 {
            "attr"
        } else if roll < 46 {
            "edge"
        } else if roll < 52 {
            "attr_edge"
        } else if roll < 64 {
            "let"
        } else if roll < 69 {
            "var"
        } else if roll < 74 {
            "set"
        } else if roll < 77 {
            "print"
        } else if roll < 85 {
            "if"
        } else if roll < 92 {
            "for"
        } else if roll < 92 + scan_w.min(6) {
            "scan"
        } else {
            "scoped_let"
        };
        match kind {
            "node" => {
                let name = self.fresh("n");
                self.declare(ctx, &name, Ty::GNode, false, true, None, Sharing::Fresh);
                Some(stmt(StmtKind::Node(GVar::u(&name))))
            }
            "attr" => {
                let (target, sharing) = match self.pick_gnode(ctx, true) {
                    Some(t) => t,
                    None => return self.make_node(ctx),
                };
                let sharing = if ctx.in_loop && sharing == Sharing::Fresh {
                    // fresh relative to the match, but a loop body runs several times
                    match &target {
                        GExpr::Var(GVar::Unscoped(u)) => {
                            let d = ctx.visible(&u.name).map(|v| v.depth).unwrap_or(0);
                            if d + 1 == ctx.scopes.len() {
                                Sharing::Fresh
                            } else {
                                Sharing::Shared
                            }
                        }
                        _ => Sharing::Shared,
                    }
                } else {
                    sharing
                };
                let attrs = self.attr_list(ctx, depth, sharing);
                Some(stmt(StmtKind::AttrNode(target, attrs)))
            }
            "edge" => {
                let a = self.pick_gnode(ctx, false);
                let b = self.pick_gnode(ctx, false);
                match (a, b) {
                    (Some((a, _)), Some((b, _))) => {
                        ctx.edges.push((a.clone(), b.clone()));
                        Some(stmt(StmtKind::Edge(a, b)))
                    }
                    _ => self.make_node(ctx),
                }
            }
            "attr_edge" => {
                if ctx.edges.is_empty() {
                    return self.make_node(ctx);
                }
                let (a, b) = ctx.edges[self.rng.below(ctx.edges.len())].clone();
                self.feature("attr_edge");
                // edges between shared nodes can be hit by many matches: constant values only
                let attrs = self.attr_list(ctx, depth, Sharing::Shared);
                Some(stmt(StmtKind::AttrEdge(a, b, attrs)))
            }
            "let" | "var" => {
                let mutable = kind == "var";
                let ty = if self.rng.chance(1, 6) { Ty::GNode } else { self.random_ty(0) };
                let ty = if ty == Ty::Syn && self.syn_sources(ctx).is_empty() { Ty::Int } else { ty };
                let ty = if self.rng.chance(1, 10) {
                    let has_opt = ctx.caps.iter().any(|(_, q, _)| *q == Quant::Opt);
                    if has_opt { Ty::OptSyn } else { ty }
                } else {
                    ty
                };
                let value = self.expr(&ty, ctx, 1, false);
                let local = self.is_local(ctx, &value);
                let mut name = self.fresh("v");
                // shadow a variable of an enclosing block now and then (never in the same block)
                if ctx.scopes.len() > 1 && self.rng.chance(1, 8) {
                    let cur = ctx.scopes.len() - 1;
                    let outer: Vec<String> = ctx
                        .vars()
                        .filter(|v| v.depth < cur && !ctx.scopes[cur].iter().any(|w| w.name == v.name))
                        .map(|v| v.name.clone())
                        .collect();
                    if !outer.is_empty() {
                        name = outer[self.rng.below(outer.len())].clone();
                        self.feature("shadowing");
                    }
                }
                // reuse a name from a sibling block that is already closed (block scoping)
                if !ctx.closed.is_empty() && self.rng.chance(1, 6) {
                    let cands: Vec<String> = ctx
                        .closed
                        .iter()
                        .filter(|n| ctx.visible(n).is_none() && !self.globals.iter().any(|g| &g.0 == *n))
                        .cloned()
                        .collect();
                    if !cands.is_empty() {
                        name = cands[self.rng.below(cands.len())].clone();
                        self.feature("sibling_block_name_reuse");
                    }
                }
                let sharing = if ty == Ty::GNode { Sharing::Fresh } else { Sharing::Shared };
                self.declare(ctx, &name, ty, mutable, local, Some(&value), sharing);
                if mutable {
                    self.feature("var");
                    Some(stmt(StmtKind::Var(GVar::u(&name), value)))
                } else {
                    Some(stmt(StmtKind::Let(GVar::u(&name), value)))
                }
            }
            "set" => {
                let muts: Vec<(String, Ty, usize)> = ctx
                    .vars()
                    .filter(|v| v.mutable && ctx.visible(&v.name).map(|w| w.depth) == Some(v.depth))
                    .map(|v| (v.name.clone(), v.ty.clone(), v.depth))
                    .collect();
                if muts.is_empty() {
                    return None;
                }
                let (name, ty, d) = muts[self.rng.below(muts.len())].clone();
                if d + 1 < ctx.scopes.len() {
                    self.feature("set_outer_block");
                }
                let value = self.expr(&ty, ctx, 1, false);
                Some(stmt(StmtKind::Set(GVar::u(&name), value)))
            }
            "print" => {
                if !self.cfg.print {
                    return None;
                }
                let n = self.rng.range(1, 2);
                let mut xs = Vec::new();
                for _ in 0..n {
                    let t = self.random_ty(1);
                    xs.push(self.expr(&t, ctx, 2, false));
                }
                Some(stmt(StmtKind::Print(xs)))
            }
            "if" => {
                if !can_nest {
                    return None;
                }
                self.feature("if");
                let narms = self.rng.range(1, 3);
                let mut arms = Vec::new();
                for _ in 0..narms {
                    let nconds = self.rng.range(1, 2);
                    let mut conds = Vec::new();
                    for ci in 0..nconds {
                        conds.push(self.condition(ctx, depth, ci > 0));
                    }
                    let stmts = self.block(ctx, depth + 1, 0);
                    arms.push(GIfArm {
                        conds,
                        stmts,
                        loc: Loc::default(),
                    });
                }
                if self.rng.chance(1, 2) {
                    let stmts = self.block(ctx, depth + 1, 0);
                    arms.push(GIfArm {
                        conds: vec![],
                        stmts,
                        loc: Loc::default(),
                    });
                }
                Some(stmt(StmtKind::If(arms)))
            }
            "for" => {
                if !can_nest {
                    return None;
                }
                self.feature("for");
                let (src, et) = self.list_source(ctx, 1);
                let var = self.fresh("x");
                ctx.scopes.push(vec![LVar {
                    name: var.clone(),
                    ty: et,
                    mutable: false,
                    local: true,
                    opt_shape: false,
                    list_shape: false,
                    sharing: Sharing::Shared,
                    depth: ctx.scopes.len(),
                }]);
                let was = ctx.in_loop;
                ctx.in_loop = true;
                let elem_is_syn = ctx.scopes.last().map(|sc| sc[0].ty == Ty::Syn).unwrap_or(false);
                let mut body = Vec::new();
                if elem_is_syn && !was && depth == 0 && self.rng.chance(1, 3) {
                    // a scoped variable on each list element, read back through the element
                    let sname = format!("elem_{}_{}", ctx.stanza_index, self.counter);
                    self.counter += 1;
                    let value = self.expr(&Ty::Int, ctx, 2, false);
                    body.push(stmt(StmtKind::Let(GVar::s(GExpr::var(&var), &sname), value)));
                    let n = self.fresh("n");
                    self.declare(ctx, &n, Ty::GNode, false, true, None, Sharing::Fresh);
                    body.push(stmt(StmtKind::Node(GVar::u(&n))));
                    body.push(stmt(StmtKind::AttrNode(GExpr::var(&n), vec![GAttr { name: "elem_value".into(), value: Some(GExpr::scoped(GExpr::var(&var), &sname)) }, GAttr { name: "elem_text".into(), value: Some(GExpr::call("source-text", vec![GExpr::var(&var)])) }])));
                    self.feature("scoped_variable_on_list_element");
                }
                body.extend(self.block_in_current_scope(ctx, depth + 1));
                ctx.in_loop = was;
                ctx.scopes.pop();
                Some(stmt(StmtKind::For(GUVar::new(&var), src, body)))
            }
            "scan" => {
                if !can_nest {
                    return None;
                }
                self.feature("scan");
                let subject = self.scan_subject(ctx);
                let narms = self.rng.range(1, 3);
                let mut arms = Vec::new();
                for _ in 0..narms {
                    let (re, groups) = if self.rng.chance(1, 40) {
                        // passes the static check but can match the empty string in context
                        self.feature("word_boundary_arm");
                        ("\\b", 1)
                    } else {
                        *self.rng.pick(REGEX_POOL)
                    };
                    let saved = ctx.regex_groups.replace(groups);
                    let was = ctx.in_loop;
                    ctx.in_loop = true;
                    let stmts = self.block(ctx, depth + 1, 0);
                    ctx.in_loop = was;
                    ctx.regex_groups = saved;
                    arms.push(GArm {
                        regex: re.to_string(),
                        stmts,
                        loc: Loc::default(),
                    });
                }
                Some(stmt(StmtKind::Scan(subject, arms)))
            }
            _ => {
                // scoped definition on a plain capture, top level only (once per match)
                if depth > 0 || ctx.in_loop {
                    return None;
                }
                let caps = self.syn_sources(ctx);
                if caps.is_empty() {
                    return None;
                }
                let c = caps[self.rng.below(caps.len())].clone();
                let name = format!("s{}_{}", ctx.stanza_index, self.counter);
                self.counter += 1;
                let ty = self.random_ty(1);
                let value = self.expr(&ty, ctx, 1, false);
                self.feature("scoped_let_adhoc");
                let scope = self.use_cap(ctx, &c);
                if self.cfg.scoped_mut && self.rng.chance(1, 3) {
                    self.feature("scoped_var");
                    Some(stmt(StmtKind::Var(GVar::s(scope, &name), value)))
                } else {
                    Some(stmt(StmtKind::Let(GVar::s(scope, &name), value)))
                }
            }
        }
    }

    /// body of a `for` (the loop variable's scope is already pushed and doubles as the body scope)
    fn block_in_current_scope(&mut self, ctx: &mut Ctx, depth: usize) -> Vec<GStmt> {
        let saved_edges = ctx.edges.len();
        let n = self.rng.range(0, 3);
        let mut out = Vec::new();
        for _ in 0..n {
            if let Some(s) = self.stmt(ctx, depth) {
                out.push(s);
            }
        }
        ctx.edges.truncate(saved_edges);
        out
    }

    fn make_node(&mut self, ctx: &mut Ctx) -> Option<GStmt> {
        let name = self.fresh("n");
        self.declare(ctx, &name, Ty::GNode, false, true, None, Sharing::Fresh);
        Some(stmt(StmtKind::Node(GVar::u(&name))))
    }

    fn scan_subject(&mut self, ctx: &mut Ctx) -> GExpr {
        if let Some(n) = ctx.regex_groups {
            if self.rng.chance(1, 3) {
                // a nested scan over a group of the enclosing arm
                self.feature("scan_over_regex_capture");
                return GExpr::RegexCap(self.rng.below(n));
            }
        }
        match self.rng.below(4) {
            0 => match self.syn_expr(ctx, true) {
                Some(s) => GExpr::call("source-text", vec![s]),
                None => GExpr::Str(self.rng.pick(STR_POOL).to_string()),
            },
            1 => {
                let cands = self.var_candidates(ctx, &Ty::Str, true);
                if cands.is_empty() {
                    GExpr::Str(self.rng.pick(STR_POOL).to_string())
                } else {
                    GExpr::var(&cands[self.rng.below(cands.len())])
                }
            }
            _ => GExpr::Str(self.rng.pick(STR_POOL).to_string()),
        }
    }

    /// `pure`: later clauses must not be able to fail or to have effects (whether they are
    /// evaluated after a false earlier clause is unspecified)
    fn condition(&mut self, ctx: &mut Ctx, _depth: usize, pure_only: bool) -> GCond {
        let opt_caps: Vec<String> = ctx
            .caps
            .iter()
            .filter(|(_, q, _)| *q == Quant::Opt)
            .map(|(n, _, _)| n.clone())
            .collect();
        let mut opt_vars: Vec<String> = ctx
            .vars()
            .filter(|v| v.opt_shape && v.local && ctx.visible(&v.name).map(|w| w.depth) == Some(v.depth))
            .map(|v| v.name.clone())
            .collect();
        for (name, q, _, _) in &self.globals {
            if *q == Quant::Opt {
                opt_vars.push(name.clone());
            }
        }
        let have_opt = !opt_caps.is_empty() || !opt_vars.is_empty();
        if have_opt && self.rng.chance(3, 5) {
            self.feature("some_none");
            let e = if !opt_caps.is_empty() && (opt_vars.is_empty() || self.rng.chance(1, 2)) {
                let n = opt_caps[self.rng.below(opt_caps.len())].clone();
                self.use_cap(ctx, &n)
            } else {
                GExpr::var(&opt_vars[self.rng.below(opt_vars.len())])
            };
            return GCond {
                kind: if self.rng.chance(1, 2) { CondKind::Some } else { CondKind::None },
                expr: e,
                loc: Loc::default(),
            };
        }
        let e = if pure_only {
            match self.rng.below(3) {
                0 => GExpr::True,
                1 => GExpr::False,
                _ => GExpr::call("eq", vec![GExpr::Int(self.rng.below(2) as u32), GExpr::Int(1)]),
            }
        } else {
            self.expr(&Ty::Bool, ctx, 1, true)
        };
        GCond {
            kind: CondKind::Bool,
            expr: e,
            loc: Loc::default(),
        }
    }

    // --------------------------------------------------------------------------------------
    // file level

    fn pick_shape(&mut self) -> (usize, QueryShape) {
        loop {
            let i = if self.cfg.pool_filter.is_empty() {
                self.rng.below(POOL.len())
            } else {
                self.cfg.pool_filter[self.rng.below(self.cfg.pool_filter.len())]
            };
            if POOL[i].exec_safe {
                return (i, POOL[i]);
            }
        }
    }

    fn stanza_ctx(&self, shape: &QueryShape, index: usize) -> Ctx {
        Ctx {
            scopes: vec![],
            caps: shape
                .caps
                .iter()
                .map(|c| (c.name.to_string(), quant_of(c.quant), c.kinds))
                .collect(),
            regex_groups: None,
            edges: vec![],
            used_caps: vec![],
            in_loop: false,
            closed: vec![],
            stanza_index: index,
        }
    }

    fn finish_stanza(&mut self, ctx: &mut Ctx, body: &mut Vec<GStmt>) {
        // every capture not prefixed with `_` must be used
        let unused: Vec<String> = ctx
            .caps
            .iter()
            .map(|(n, _, _)| n.clone())
            .filter(|n| !n.starts_with('_') && !ctx.used_caps.contains(n))
            .collect();
        if unused.is_empty() {
            return;
        }
        let node = self.fresh("n");
        body.push(stmt(StmtKind::Node(GVar::u(&node))));
        let attrs = unused
            .iter()
            .map(|c| GAttr {
                name: format!("cap_{}", c.replace('-', "_")),
                value: Some(GExpr::cap(c)),
            })
            .collect();
        body.push(stmt(StmtKind::AttrNode(GExpr::var(&node), attrs)));
    }

    fn definer_stanza(&mut self, index: usize, kind: &'static str, names: &[(String, Ty, bool, bool)]) -> Option<GStanza> {
        // a total query with a plain capture on `kind`
        let cand: Vec<usize> = POOL
            .iter()
            .enumerate()
            .filter(|(_, q)| q.total && q.exec_safe && q.root_kinds.len() == 1 && q.root_kinds[0] == kind && q.caps.len() == 1 && q.caps[0].quant.is_empty() && !q.caps[0].name.starts_with('_'))
            .map(|(i, _)| i)
            .collect();
        if cand.is_empty() {
            return None;
        }
        let pi = cand[self.rng.below(cand.len())];
        let shape = POOL[pi];
        let mut ctx = self.stanza_ctx(&shape, index);
        ctx.scopes.push(Vec::new());
        let cap = shape.caps[0].name;
        let mut body = Vec::new();
        for (name, ty, inherited, mutable) in names {
            let scope = self.use_cap(&mut ctx, cap);
            match ty {
                Ty::GNode => {
                    body.push(stmt(StmtKind::Node(GVar::s(scope, name))));
                    // tag it so that graph comparison is cheap
                    let tag = GAttr {
                        name: format!("def_{}", name),
                        value: Some(GExpr::call("source-text", vec![GExpr::cap(cap)])),
                    };
                    let pos = GAttr {
                        name: format!("pos_{}", name),
                        value: Some(GExpr::List(vec![
                            GExpr::call("start-row", vec![GExpr::cap(cap)]),
                            GExpr::call("start-column", vec![GExpr::cap(cap)]),
                        ])),
                    };
                    body.push(stmt(StmtKind::AttrNode(
                        GExpr::scoped(GExpr::cap(cap), name),
                        vec![tag, pos],
                    )));
                }
                other => {
                    let value = self.expr(other, &mut ctx, 1, false);
                    if *mutable {
                        body.push(stmt(StmtKind::Var(GVar::s(scope, name), value)));
                    } else {
                        body.push(stmt(StmtKind::Let(GVar::s(scope, name), value)));
                    }
                }
            }
            self.schema.push(ScopedSchema {
                name: name.clone(),
                kind,
                ty: ty.clone(),
                inherited: *inherited,
                mutable: *mutable,
            });
        }
        Some(GStanza {
            query: shape.text.to_string(),
            pool: Some(pi),
            stmts: body,
            loc: Loc::default(),
        })
    }

    fn general_stanza(&mut self, index: usize) -> GStanza {
        let (mut pi, mut shape) = self.pick_shape();
        if !self.edge_schema.is_empty() && self.cfg.pool_filter.is_empty() && self.rng.chance(1, 2) {
            let kind = self.edge_schema[0].0;
            let cand: Vec<usize> = POOL
                .iter()
                .enumerate()
                .filter(|(_, q)| q.exec_safe && q.caps.iter().any(|c| c.quant.is_empty() && c.kinds.len() == 1 && c.kinds[0] == kind))
                .map(|(i, _)| i)
                .collect();
            if !cand.is_empty() {
                pi = cand[self.rng.below(cand.len())];
                shape = POOL[pi];
            }
        }
        let mut ctx = self.stanza_ctx(&shape, index);
        ctx.scopes.push(Vec::new());
        let mut body = Vec::new();
        // start with a tagged node most of the time
        if self.rng.chance(4, 5) {
            let n = self.fresh("n");
            self.declare(&mut ctx, &n, Ty::GNode, false, true, None, Sharing::Fresh);
            body.push(stmt(StmtKind::Node(GVar::u(&n))));
            let mut attrs = vec![GAttr {
                name: "stanza".into(),
                value: Some(GExpr::Int(index as u32)),
            }];
            if let Some(c) = shape.caps.iter().find(|c| c.quant.is_empty() && !c.name.starts_with('_')) {
                let cap = self.use_cap(&mut ctx, c.name);
                attrs.push(GAttr {
                    name: "at".into(),
                    value: Some(GExpr::List(vec![
                        GExpr::call("start-row", vec![cap.clone()]),
                        GExpr::call("start-column", vec![cap.clone()]),
                        GExpr::call("end-row", vec![cap.clone()]),
                        GExpr::call("end-column", vec![cap]),
                    ])),
                });
            }
            body.push(stmt(StmtKind::AttrNode(GExpr::var(&n), attrs)));
        }
        let n = self.rng.range(1, self.cfg.max_stmts);
        for _ in 0..n {
            if let Some(s) = self.stmt(&mut ctx, 0) {
                body.push(s);
            }
        }
        // annotate an edge that another stanza creates
        if !self.edge_schema.is_empty() && self.rng.chance(1, 2) {
            let (kind, src, sink) = self.edge_schema[0].clone();
            let caps: Vec<String> = ctx
                .caps
                .iter()
                .filter(|(_, q, k)| *q == Quant::One && !k.is_empty() && k.iter().all(|x| *x == kind))
                .map(|(n, _, _)| n.clone())
                .collect();
            if let Some(c) = caps.first() {
                let name = self.fresh("ea");
                let value = self.const_literal(&Ty::Int);
                let a = self.use_cap(&mut ctx, c);
                let b = GExpr::cap(c);
                self.feature("attr_on_edge_of_other_stanza");
                body.push(stmt(StmtKind::AttrEdge(GExpr::scoped(a, &src), GExpr::scoped(b, &sink), vec![GAttr { name, value: Some(value) }])));
            }
        }
        // scoped updates through `set` (strict only)
        if self.cfg.scoped_mut && self.rng.chance(1, 4) {
            let muts: Vec<ScopedSchema> = self.schema.iter().filter(|s| s.mutable).cloned().collect();
            for s in muts {
                let caps: Vec<String> = ctx
                    .caps
                    .iter()
                    .filter(|(_, q, k)| *q == Quant::One && !k.is_empty() && k.iter().all(|x| *x == s.kind))
                    .map(|(n, _, _)| n.clone())
                    .collect();
                if let Some(c) = caps.first() {
                    let value = self.expr(&s.ty, &mut ctx, 1, false);
                    let scope = self.use_cap(&mut ctx, c);
                    self.feature("scoped_set");
                    body.push(stmt(StmtKind::Set(GVar::s(scope, &s.name), value)));
                    break;
                }
            }
        }
        self.finish_stanza(&mut ctx, &mut body);
        GStanza {
            query: shape.text.to_string(),
            pool: Some(pi),
            stmts: body,
            loc: Loc::default(),
        }
    }

    fn file(&mut self) -> (GFile, BTreeMap<String, MVal>) {
        let mut items = Vec::new();
        let mut supplied = BTreeMap::new();
        // globals
        let nglobals = self.rng.below(4);
        for gi in 0..nglobals {
            let name = format!("g{}", gi);
            match self.rng.below(5) {
                0 => {
                    let default = if self.rng.chance(1, 2) { Some(self.rng.pick(STR_POOL).to_string()) } else { None };
                    if default.is_none() || self.rng.chance(1, 2) {
                        supplied.insert(name.clone(), MVal::str(*self.rng.pick(STR_POOL)));
                    }
                    self.globals.push((name.clone(), Quant::One, default.clone(), Ty::Str));
                    items.push(Item::Global(GGlobal { name, quant: Quant::One, default, loc: Loc::default() }));
                }
                1 => {
                    let v = if self.rng.chance(1, 2) { MVal::Null } else { MVal::str(*self.rng.pick(STR_POOL)) };
                    supplied.insert(name.clone(), v);
                    self.globals.push((name.clone(), Quant::Opt, None, Ty::OptStr));
                    items.push(Item::Global(GGlobal { name, quant: Quant::Opt, default: None, loc: Loc::default() }));
                }
                2 => {
                    let n = self.rng.below(4);
                    let xs = (0..n).map(|_| MVal::str(*self.rng.pick(STR_POOL))).collect();
                    supplied.insert(name.clone(), MVal::List(xs));
                    self.globals.push((name.clone(), Quant::Star, None, Ty::List(Box::new(Ty::Str))));
                    items.push(Item::Global(GGlobal { name, quant: Quant::Star, default: None, loc: Loc::default() }));
                }
                3 => {
                    let n = self.rng.range(1, 3);
                    let xs = (0..n).map(|_| MVal::Int(self.rng.below(50) as u32)).collect();
                    supplied.insert(name.clone(), MVal::List(xs));
                    self.globals.push((name.clone(), Quant::Plus, None, Ty::List(Box::new(Ty::Int))));
                    items.push(Item::Global(GGlobal { name, quant: Quant::Plus, default: None, loc: Loc::default() }));
                }
                _ => {
                    supplied.insert(name.clone(), MVal::Int(self.rng.below(100) as u32));
                    self.globals.push((name.clone(), Quant::One, None, Ty::Int));
                    items.push(Item::Global(GGlobal { name, quant: Quant::One, default: None, loc: Loc::default() }));
                }
            }
        }
        // shorthands
        if self.cfg.shorthands && self.rng.chance(1, 2) {
            let n = self.rng.range(1, 2);
            for si in 0..n {
                let name = format!("sh{}", si);
                let var = self.fresh("p");
                let ty = match self.rng.below(5) {
                    0 | 1 => Ty::Str,
                    2 | 3 => Ty::Int,
                    _ => Ty::GNode,
                };
                let mut attrs = vec![GAttr {
                    name: format!("{}_raw", name),
                    value: Some(GExpr::var(&var)),
                }];
                if ty == Ty::GNode {
                    // the parameter is used twice: a `(node)` argument must be evaluated once
                    attrs.push(GAttr {
                        name: format!("{}_again", name),
                        value: Some(GExpr::List(vec![GExpr::var(&var), GExpr::var(&var)])),
                    });
                    self.feature("shorthand_with_graph_node_parameter");
                } else if ty == Ty::Str {
                    attrs.push(GAttr {
                        name: format!("{}_fmt", name),
                        value: Some(GExpr::call("format", vec![GExpr::str("<{}>"), GExpr::var(&var)])),
                    });
                } else {
                    attrs.push(GAttr {
                        name: format!("{}_inc", name),
                        value: Some(GExpr::call("plus", vec![GExpr::var(&var), GExpr::Int(1)])),
                    });
                    if self.rng.chance(1, 2) {
                        attrs.push(GAttr {
                            name: format!("{}_sq", name),
                            value: Some(GExpr::ListComp {
                                elem: Box::new(GExpr::call("plus", vec![GExpr::var("k"), GExpr::var(&var)])),
                                var: GUVar::new("k"),
                                src: Box::new(GExpr::List(vec![GExpr::Int(1), GExpr::Int(2)])),
                                loc: Loc::default(),
                            }),
                        });
                    }
                }
                // a shorthand using an earlier shorthand (acyclic)
                if si > 0 && ty == self.shorthands[0].1 && self.rng.chance(1, 2) {
                    attrs.push(GAttr {
                        name: self.shorthands[0].0.clone(),
                        value: Some(GExpr::var(&var)),
                    });
                    self.feature("shorthand_in_shorthand");
                }
                self.shorthands.push((name.clone(), ty));
                items.push(Item::Shorthand(GShorthand {
                    name,
                    var: GUVar::new(&var),
                    attrs,
                    loc: Loc::default(),
                }));
            }
        }
        // scoped schema: definers first
        let mut stanzas: Vec<GStanza> = Vec::new();
        let mut definers: Vec<GStanza> = Vec::new();
        let mut late_definers: Vec<GStanza> = Vec::new();
        if self.rng.chance(4, 5) {
            // per-node graph nodes
            let kinds: &[&'static str] = &["identifier", "call", "function_definition", "string", "integer", "block", "expression_statement", "class_definition"];
            let n = self.rng.range(1, 2);
            for _ in 0..n {
                let kind = *self.rng.pick(kinds);
                if self.schema.iter().any(|s| s.kind == kind && !s.inherited) {
                    continue;
                }
                let mut names = vec![(format!("n_{}", &kind[..3]), Ty::GNode, false, false)];
                if self.rng.chance(1, 2) {
                    let mutable = self.cfg.scoped_mut && self.rng.chance(1, 2);
                    names.push((format!("t_{}", &kind[..3]), if self.rng.chance(1, 2) { Ty::Str } else { Ty::Int }, false, mutable));
                }
                if let Some(st) = self.definer_stanza(definers.len(), kind, &names) {
                    definers.push(st);
                }
            }
        }
        if self.rng.chance(3, 5) {
            // inherited: always defined on the module, sometimes overridden nearer
            let name = "scope".to_string();
            items.push(Item::Inherit(name.clone()));
            self.feature("inherit");
            if let Some(st) = self.definer_stanza(definers.len(), "module", &[(name.clone(), Ty::GNode, true, false)]) {
                definers.push(st);
            }
            for kind in ["function_definition", "class_definition", "block"] {
                if self.rng.chance(1, 3) {
                    // schema entry already exists for the name; add the definer only
                    let before = self.schema.len();
                    if let Some(st) = self.definer_stanza(definers.len(), kind, &[(name.clone(), Ty::GNode, true, false)]) {
                        if self.cfg.scoped_mut && !self.cfg.forward_refs && self.rng.chance(1, 2) {
                            late_definers.push(st);
                        } else {
                            definers.push(st);
                        }
                        self.feature("inherit_override");
                    }
                    self.schema.truncate(before);
                }
            }
            if self.cfg.scoped_mut && self.rng.chance(1, 3) {
                // a mutable inherited value on the module, updated by a later stanza
                let iname = "counter".to_string();
                items.push(Item::Inherit(iname.clone()));
                if let Some(st) = self.definer_stanza(definers.len(), "module", &[(iname.clone(), Ty::Int, true, true)]) {
                    definers.push(st);
                    let upd = GStanza {
                        query: "(module) @mod".into(),
                        pool: POOL.iter().position(|q| q.text == "(module) @mod"),
                        stmts: vec![stmt(StmtKind::Set(GVar::s(GExpr::cap("mod"), &iname), GExpr::Int(self.rng.below(1000) as u32)))],
                        loc: Loc::default(),
                    };
                    late_definers.push(upd);
                    self.feature("mutable_inherited_updated_later");
                }
            }
            if self.rng.chance(1, 3) {
                let iname = "label".to_string();
                items.push(Item::Inherit(iname.clone()));
                if let Some(st) = self.definer_stanza(definers.len(), "module", &[(iname, Ty::Str, true, false)]) {
                    definers.push(st);
                }
            }
        }
        // an edge per node of a kind (between scoped graph nodes), so that other stanzas can
        // annotate edges they did not create themselves
        if self.rng.chance(1, 2) {
            let per_node: Vec<(&'static str, String)> = self.schema.iter().filter(|s| s.ty == Ty::GNode && !s.inherited).map(|s| (s.kind, s.name.clone())).collect();
            let inherited: Vec<String> = self.schema.iter().filter(|s| s.ty == Ty::GNode && s.inherited && s.kind == "module").map(|s| s.name.clone()).collect();
            if let (Some((kind, src)), Some(sink)) = (per_node.first().cloned(), inherited.first().cloned()) {
                let cand: Vec<usize> = POOL.iter().enumerate().filter(|(_, q)| q.total && q.exec_safe && q.root_kinds.len() == 1 && q.root_kinds[0] == kind && q.caps.len() == 1 && q.caps[0].quant.is_empty() && !q.caps[0].name.starts_with('_')).map(|(i, _)| i).collect();
                if !cand.is_empty() {
                    let pi = cand[self.rng.below(cand.len())];
                    let cap = POOL[pi].caps[0].name;
                    let body = vec![stmt(StmtKind::Edge(GExpr::scoped(GExpr::cap(cap), &src), GExpr::scoped(GExpr::cap(cap), &sink)))];
                    definers.push(GStanza { query: POOL[pi].text.to_string(), pool: Some(pi), stmts: body, loc: Loc::default() });
                    self.edge_schema.push((kind, src, sink));
                    self.feature("edge_per_node_stanza");
                }
            }
        }
        let ngeneral = self.rng.range(1, self.cfg.max_stanzas.saturating_sub(definers.len()).max(1));
        let base = definers.len();
        for i in 0..ngeneral {
            stanzas.push(self.general_stanza(base + i));
        }
        if self.cfg.forward_refs {
            // lazy evaluation: order does not matter, put readers first sometimes
            let mut all: Vec<GStanza> = definers.into_iter().chain(stanzas.into_iter()).collect();
            self.rng.shuffle(&mut all);
            for s in all {
                items.push(Item::Stanza(s));
            }
        } else {
            let mut all: Vec<GStanza> = definers.into_iter().chain(stanzas.into_iter()).collect();
            if self.cfg.scoped_mut && !late_definers.is_empty() {
                // strict only: a nearer definition (or an update of a mutable inherited value)
                // may arrive after some readers have run; later readers must see it
                for st in late_definers.drain(..) {
                    let lo = base.min(all.len());
                    let at = self.rng.range(lo, all.len());
                    all.insert(at, st);
                    self.feature("definition_between_readers");
                }
            }
            for s in all {
                items.push(Item::Stanza(s));
            }
        }
        // interleave declarations and stanzas a little: globals/inherit/shorthands may appear
        // anywhere at top level (they are file-wide)
        if self.rng.chance(1, 3) {
            let decls: Vec<Item> = items.iter().filter(|i| !matches!(i, Item::Stanza(_))).cloned().collect();
            let sts: Vec<Item> = items.iter().filter(|i| matches!(i, Item::Stanza(_))).cloned().collect();
            let mut merged = Vec::new();
            let mut di = decls.into_iter();
            let mut si = sts.into_iter().peekable();
            // keep relative order inside both groups
            loop {
                let take_decl = self.rng.chance(1, 2);
                if take_decl {
                    if let Some(d) = di.next() {
                        merged.push(d);
                        continue;
                    }
                }
                match si.next() {
                    Some(s) => merged.push(s),
                    None => {
                        merged.extend(di.by_ref());
                        break;
                    }
                }
            }
            items = merged;
            self.feature("interleaved_declarations");
        }
        (GFile { items }, supplied)
    }
}

pub fn gen_program(rng: &mut Rng, cfg: &GenCfg) -> GenProgram {
    let mut g = Gen {
        rng,
        cfg: cfg.clone(),
        counter: 0,
        globals: Vec::new(),
        schema: Vec::new(),
        shorthands: Vec::new(),
        edge_schema: Vec::new(),
        features: Vec::new(),
    };
    let (mut file, globals) = g.file();
    file.number();
    let mut fault = None;
    if g.rng.chance(cfg.fault_pct, 100) {
        fault = inject_runtime_fault(g.rng, &mut file);
        file.number();
    }
    let mut features = g.features;
    if g.rng.chance(cfg.ast_mutation_pct, 100) {
        let n = g.rng.range(1, 2);
        if mutate_ast(g.rng, &mut file, n, cfg.scoped_mut) > 0 {
            features.push("ast_mutation");
        }
    }
    // the caller may bind more globals than the file declares: a local definition of such a name
    // is a duplicate-variable error at run time (the checker cannot know about it)
    let mut globals = globals;
    if cfg.fault_pct > 0 && g.rng.chance(cfg.fault_pct, 300) {
        let mut names: Vec<String> = Vec::new();
        file.walk_stmts(&mut |_si, _d, st| match &st.kind {
            StmtKind::Let(GVar::Unscoped(u), _) | StmtKind::Var(GVar::Unscoped(u), _) | StmtKind::Node(GVar::Unscoped(u)) => names.push(u.name.clone()),
            StmtKind::For(u, _, _) => names.push(u.name.clone()),
            _ => {}
        });
        if !names.is_empty() {
            let name = g.rng.pick(&names).clone();
            if !globals.contains_key(&name) {
                let v = if g.rng.chance(1, 2) { crate::model::value::MVal::Int(7) } else { crate::model::value::MVal::str("undeclared global") };
                globals.insert(name, v);
                fault = Some(fault.map(|f| format!("{}+undeclared_global_named_like_a_local", f)).unwrap_or_else(|| "undeclared_global_named_like_a_local".to_string()));
            }
        }
    }
    // two different syntax nodes of one kind that start at the same position are different values
    if cfg.fault_pct > 0 && g.rng.chance(cfg.fault_pct, 400) {
        let q = *g.rng.pick(&[
            "(binary_operator left: (binary_operator) @inner) @outer",
            "(attribute object: (attribute) @inner) @outer",
            "(call function: (call) @inner) @outer",
        ]);
        let n = GExpr::var("fault_sn");
        let first = if g.rng.chance(1, 2) { ("outer", "inner") } else { ("inner", "outer") };
        let stmts = vec![
            stmt(StmtKind::Node(GVar::u("fault_sn"))),
            stmt(StmtKind::AttrNode(n.clone(), vec![GAttr { name: "fault".into(), value: Some(GExpr::cap(first.0)) }])),
            stmt(StmtKind::AttrNode(n, vec![GAttr { name: "fault".into(), value: Some(GExpr::cap(first.1)) }])),
        ];
        file.items.push(Item::Stanza(GStanza { query: q.into(), pool: None, stmts, loc: Loc::default() }));
        file.number();
        fault = Some(fault.map(|f| format!("{}+nested_same_kind_syntax_nodes_conflict", f)).unwrap_or_else(|| "nested_same_kind_syntax_nodes_conflict".to_string()));
    }
    GenProgram {
        file,
        globals,
        fault,
        features,
    }
}

/// Replace or add something that makes the run fail for a documented reason.
pub fn inject_runtime_fault(rng: &mut Rng, file: &mut GFile) -> Option<String> {
    let nst = file.stanzas().len();
    if nst == 0 {
        return None;
    }
    let si = rng.below(nst);
    let kind = rng.below(12);
    let mut stanzas = file.stanzas_mut();
    let st = &mut stanzas[si];
    let pos = rng.below(st.stmts.len() + 1);
    let (s, name): (Vec<GStmt>, &str) = match kind {
        0 => (
            vec![
                stmt(StmtKind::Node(GVar::u("fault_n"))),
                stmt(StmtKind::AttrNode(
                    GExpr::var("fault_n"),
                    vec![GAttr { name: "fault".into(), value: Some(GExpr::call("no-such-function", vec![GExpr::Int(1)])) }],
                )),
            ],
            "unknown_function",
        ),
        1 => (
            vec![stmt(StmtKind::Edge(GExpr::str("not a node"), GExpr::call("node", vec![])))],
            "edge_on_string",
        ),
        2 => (
            vec![
                stmt(StmtKind::Node(GVar::u("fault_n"))),
                stmt(StmtKind::AttrNode(GExpr::var("fault_n"), vec![GAttr { name: "fault".into(), value: Some(GExpr::Int(1)) }])),
                stmt(StmtKind::AttrNode(GExpr::var("fault_n"), vec![GAttr { name: "fault".into(), value: Some(GExpr::Int(2)) }])),
            ],
            "conflicting_attribute",
        ),
        3 => (
            vec![stmt(StmtKind::Let(GVar::u("fault_v"), GExpr::call("plus", vec![GExpr::Int(1), GExpr::str("two")])))],
            "type_error_in_call",
        ),
        4 => {
            // the source may have edges to nodes created before and after the missing sink
            let mut v = vec![stmt(StmtKind::Node(GVar::u("fault_0"))), stmt(StmtKind::Node(GVar::u("fault_a"))), stmt(StmtKind::Node(GVar::u("fault_b"))), stmt(StmtKind::Node(GVar::u("fault_c")))];
            let mut name = "undefined_edge";
            if rng.chance(1, 2) {
                v.push(stmt(StmtKind::Edge(GExpr::var("fault_a"), GExpr::var("fault_c"))));
                v.push(stmt(StmtKind::AttrEdge(GExpr::var("fault_a"), GExpr::var("fault_c"), vec![GAttr { name: "fault".into(), value: Some(GExpr::Int(1)) }])));
                name = "undefined_edge_next_to_existing_edges";
            }
            if rng.chance(1, 2) {
                v.push(stmt(StmtKind::Edge(GExpr::var("fault_a"), GExpr::var("fault_0"))));
                name = "undefined_edge_next_to_existing_edges";
            }
            // under another attribute name than the neighbouring edge's half of the time: an
            // implementation that lands on the neighbour then has no conflict to stumble over
            let attr_name = if rng.chance(1, 2) { "fault" } else { "fault_other" };
            v.push(stmt(StmtKind::AttrEdge(GExpr::var("fault_a"), GExpr::var("fault_b"), vec![GAttr { name: attr_name.into(), value: Some(GExpr::Int(2)) }])));
            (v, name)
        }
        5 => (
            vec![stmt(StmtKind::Let(GVar::u("fault_v"), GExpr::call("eq", vec![GExpr::Int(1), GExpr::str("1")])))],
            "eq_different_types",
        ),
        6 => (
            vec![stmt(StmtKind::Let(GVar::u("fault_v"), GExpr::call("format", vec![GExpr::str("{} {}"), GExpr::Int(1)])))],
            "format_missing_argument",
        ),
        // scoped variables live on syntax nodes only
        7 => (
            vec![
                stmt(StmtKind::Node(GVar::u("fault_n"))),
                stmt(StmtKind::Node(GVar::u("fault_m"))),
                stmt(StmtKind::AttrNode(GExpr::var("fault_m"), vec![GAttr { name: "fault".into(), value: Some(GExpr::scoped(GExpr::var("fault_n"), "fault_tag")) }])),
            ],
            "scoped_read_on_graph_node",
        ),
        8 => (
            vec![stmt(StmtKind::Node(GVar::u("fault_n"))), stmt(StmtKind::Let(GVar::s(GExpr::var("fault_n"), "fault_tag"), GExpr::Int(1)))],
            "scoped_definition_on_graph_node",
        ),
        9 => (
            vec![stmt(StmtKind::Let(GVar::u("fault_s"), GExpr::str("text"))), stmt(StmtKind::Var(GVar::s(GExpr::var("fault_s"), "fault_tag"), GExpr::Int(1)))],
            "scoped_definition_on_string",
        ),
        // values nobody reads still have to be well-formed
        10 => (
            vec![stmt(StmtKind::Let(GVar::u("fault_unused"), GExpr::List(vec![GExpr::Int(1), GExpr::call("plus", vec![GExpr::Int(1), GExpr::str("two")])])))],
            "type_error_inside_unused_list_literal",
        ),
        _ => (
            vec![stmt(StmtKind::Let(GVar::u("fault_unused"), GExpr::Set(vec![GExpr::call("not", vec![GExpr::True, GExpr::False])])))],
            "arity_error_inside_unused_set_literal",
        ),
    };
    for (k, x) in s.into_iter().enumerate() {
        st.stmts.insert(pos + k, x);
    }
    Some(name.to_string())
}

// ------------------------------------------------------------------------------------------
// AST-level mutation: replace random expressions by random (usually ill-typed) ones. The result
// usually still loads (when the static rules happen to hold) and then fails or succeeds at run
// time in ways the reference model predicts.

fn visit_exprs_mut(stmts: &mut Vec<GStmt>, f: &mut dyn FnMut(&mut GExpr)) {
    fn attrs(a: &mut Vec<GAttr>, f: &mut dyn FnMut(&mut GExpr)) {
        for x in a.iter_mut() {
            if let Some(v) = &mut x.value {
                f(v);
            }
        }
    }
    for s in stmts.iter_mut() {
        match &mut s.kind {
            StmtKind::Let(_, e) | StmtKind::Var(_, e) | StmtKind::Set(_, e) => f(e),
            StmtKind::Node(_) => {}
            StmtKind::Edge(a, b) => {
                f(a);
                f(b);
            }
            StmtKind::AttrNode(n, at) => {
                f(n);
                attrs(at, f);
            }
            StmtKind::AttrEdge(a, b, at) => {
                f(a);
                f(b);
                attrs(at, f);
            }
            StmtKind::Print(xs) => xs.iter_mut().for_each(|x| f(x)),
            StmtKind::Scan(e, arms) => {
                f(e);
                for a in arms.iter_mut() {
                    visit_exprs_mut(&mut a.stmts, f);
                }
            }
            StmtKind::If(arms) => {
                // conditions are left alone: whether a later clause is evaluated after a false
                // earlier one is unspecified, so clauses must stay pure and total
                for a in arms.iter_mut() {
                    visit_exprs_mut(&mut a.stmts, f);
                }
            }
            StmtKind::For(_, e, body) => {
                f(e);
                visit_exprs_mut(body, f);
            }
        }
    }
}

fn random_untyped(rng: &mut Rng) -> GExpr {
    match rng.below(12) {
        // members of different types that print alike are different members
        10 => GExpr::Set(vec![GExpr::Int(1), GExpr::str("1"), GExpr::True, GExpr::str("#true"), GExpr::Null, GExpr::str("#null")]),
        11 => GExpr::call("length", vec![GExpr::Set(vec![GExpr::Int(7), GExpr::str("7")])]),
        0 => GExpr::Null,
        1 => GExpr::True,
        2 => GExpr::Int(*rng.pick(&[0u32, 7, 4294967295])),
        3 => GExpr::str(*rng.pick(STR_POOL)),
        4 => GExpr::List(vec![GExpr::Int(1), GExpr::str("two")]),
        5 => GExpr::Set(vec![GExpr::Null]),
        6 => GExpr::call("node", vec![]),
        7 => GExpr::call("plus", vec![GExpr::Int(4294967295), GExpr::Int(rng.below(2) as u32)]),
        8 => GExpr::call(*rng.pick(&["is-null", "not", "length", "source-text", "no-such-fn"]), vec![GExpr::Int(3)]),
        _ => GExpr::RegexCap(rng.below(3)),
    }
}

/// Replace `count` random expressions of the file. Returns how many were replaced.
/// `fresh_nodes`: whether `(node)` may be among the replacements. Programs meant to be
/// order-insensitive must not get one: it would re-bind variables to new graph nodes behind the
/// generator's bookkeeping of which edges exist, and put node numbers into formatted strings.
pub fn mutate_ast(rng: &mut Rng, file: &mut GFile, count: usize, fresh_nodes: bool) -> usize {
    let mut total = 0usize;
    for st in file.stanzas_mut() {
        visit_exprs_mut(&mut st.stmts, &mut |_| total += 1);
    }
    if total == 0 {
        return 0;
    }
    let mut done = 0;
    for _ in 0..count {
        let target = rng.below(total);
        let mut replacement = random_untyped(rng);
        if !fresh_nodes {
            while matches!(&replacement, GExpr::Call(f, _) if f == "node") {
                replacement = random_untyped(rng);
            }
        }
        let mut k = 0usize;
        let mut repl = Some(replacement);
        for st in file.stanzas_mut() {
            visit_exprs_mut(&mut st.stmts, &mut |e| {
                if k == target {
                    if let Some(r) = repl.take() {
                        *e = r;
                    }
                }
                k += 1;
            });
        }
        done += 1;
    }
    file.number();
    done
}
