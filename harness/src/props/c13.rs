//! C13 – standard-library functions honour their documented contracts.
//! Every call goes through `Functions::stdlib().call(..)` and is compared with the harness's
//! own stdlib written from `reference/functions.rs`.

use crate::model::stdlib::{self, FnCtx, FnErr, STDLIB_NAMES};
use crate::model::value::*;
use crate::oracle::observe::observe_value;
use crate::oracle::tree::{parse_python, TreeInfo};
use crate::util::{catch, hash_str, mix, Out, Rng};
use crate::gen::py;
use crate::{Prop, RunCfg, Tier};
use serde_json::json;
use std::collections::BTreeSet;
use tree_sitter_graph::functions::Functions;
use tree_sitter_graph::graph::{Graph, GraphNodeRef, Value};
use tree_sitter_graph::Identifier;

pub struct C13;

const STRS: &[&str] = &[
    "", "a", "{}", "{{", "}}", "{", "}", "{} {}", "a{}b{{c}}", "$1", "(", "[a-z]+", "é", "日本",
    "x/y/z", "a.b", "\\d+", "^", "{}}", "{{}", "héllo wörld", "$0$0", "(?P<n>a)", "$n",
];

struct World<'t> {
    ti: TreeInfo<'t>,
    source: String,
    interesting: Vec<usize>,
}

fn palette(rng: &mut Rng, w: &World, gnodes: usize, depth: usize) -> MVal {
    let top = if depth >= 2 { 7 } else { 10 };
    match rng.below(top) {
        0 => MVal::Null,
        1 => MVal::Bool(rng.chance(1, 2)),
        2 => MVal::Int(*rng.pick(&[0u32, 1, 2, 41, u32::MAX - 1, u32::MAX, 2147483648])),
        3 | 4 => MVal::str(*rng.pick(STRS)),
        5 => MVal::Syn(*rng.pick(&w.interesting)),
        6 => {
            if gnodes > 0 {
                MVal::GNode(rng.below(gnodes))
            } else {
                MVal::Null
            }
        }
        7 | 8 => MVal::List((0..rng.below(4)).map(|_| palette(rng, w, gnodes, depth + 1)).collect()),
        _ => MVal::Set((0..rng.below(3)).map(|_| palette(rng, w, gnodes, depth + 1)).collect::<BTreeSet<_>>()),
    }
}

/// arguments that fit the function's signature (to reach the success paths deeply)
fn typed_args(rng: &mut Rng, name: &str, w: &World, gnodes: usize) -> Vec<MVal> {
    let int = |rng: &mut Rng| MVal::Int(*rng.pick(&[0u32, 1, 5, 1000, u32::MAX, u32::MAX - 1, 2147483647, 2147483648]));
    let s = |rng: &mut Rng| MVal::str(*rng.pick(STRS));
    let b = |rng: &mut Rng| MVal::Bool(rng.chance(1, 2));
    match name {
        "eq" => {
            let a = palette(rng, w, gnodes, 1);
            let bb = if rng.chance(1, 2) { a.clone() } else { palette(rng, w, gnodes, 1) };
            vec![a, bb]
        }
        "is-null" => vec![palette(rng, w, gnodes, 1)],
        "node" => vec![],
        "not" => vec![b(rng)],
        "and" | "or" => (0..rng.below(5)).map(|_| b(rng)).collect(),
        "plus" => (0..rng.below(5)).map(|_| int(rng)).collect(),
        "format" => {
            let n = rng.below(4);
            let mut f = String::new();
            for _ in 0..n {
                f.push_str(*rng.pick(&["", "a", "{{", "}}", "é ", "", "a", "{{", "}}", "{x", "}x", "{ }"]));
                f.push_str("{}");
            }
            f.push_str(*rng.pick(&["", "{{}}", "}}", "!", "", "{{}}", "}}", "!", "{", "}", "{é", "}}}"]));
            let mut args = vec![MVal::Str(f)];
            let k = if rng.chance(1, 5) { n + 1 } else if rng.chance(1, 5) && n > 0 { n - 1 } else { n };
            for _ in 0..k {
                args.push(palette(rng, w, gnodes, 1));
            }
            args
        }
        "replace" => vec![s(rng), MVal::str(*rng.pick(&["a", "[aeiou]", "(\\w)/", "é", "^", "$", "(", "x*", "\\d+"])), MVal::str(*rng.pick(&["", "_", "$1", "$0$0", "${1}x", "é"]))],
        "concat" => (0..rng.below(4)).map(|_| MVal::List((0..rng.below(3)).map(|_| palette(rng, w, gnodes, 2)).collect())).collect(),
        "is-empty" | "length" => vec![MVal::List((0..rng.below(4)).map(|_| palette(rng, w, gnodes, 2)).collect())],
        "join" => {
            let l = MVal::List((0..rng.below(4)).map(|_| palette(rng, w, gnodes, 1)).collect());
            if rng.chance(1, 2) {
                vec![l]
            } else {
                vec![l, s(rng)]
            }
        }
        _ => vec![MVal::Syn(*rng.pick(&w.interesting))],
    }
}

fn render_involved(name: &str, args: &[MVal]) -> bool {
    matches!(name, "format" | "join") && !args.iter().all(stdlib::display_is_determined)
}

fn one_call(name: &str, args: &[MVal], w: &World, gnodes: usize, functions: &Functions, out: &mut Out) -> Option<u64> {
    // fresh graph per call: graph node references 0..gnodes, syntax nodes registered on demand
    let mut graph = Graph::new();
    let refs: Vec<GraphNodeRef> = (0..gnodes).map(|_| graph.add_graph_node()).collect();
    fn conv<'t>(v: &MVal, graph: &mut Graph<'t>, w: &World<'t>, refs: &[GraphNodeRef]) -> Value {
        match v {
            MVal::Null => Value::Null,
            MVal::Bool(b) => Value::Boolean(*b),
            MVal::Int(i) => Value::Integer(*i),
            MVal::Str(s) => Value::String(s.clone()),
            MVal::List(xs) => Value::List(xs.iter().map(|x| conv(x, graph, w, refs)).collect()),
            MVal::Set(xs) => Value::Set(xs.iter().map(|x| conv(x, graph, w, refs)).collect()),
            MVal::Syn(i) => {
                Value::SyntaxNode(graph.add_syntax_node(w.ti.ts_nodes[*i]))
            }
            MVal::GNode(i) => Value::GraphNode(refs[*i]),
        }
    }
    let real_args: Vec<Value> = args.iter().map(|a| conv(a, &mut graph, w, &refs)).collect();
    // model
    let mut mgraph = OGraph::new();
    for _ in 0..gnodes {
        mgraph.add_node();
    }
    let expected = {
        let mut ctx = FnCtx {
            ti: &w.ti,
            source: &w.source,
            graph: &mut mgraph,
        };
        stdlib::call(name, args, &mut ctx)
    };
    let before = graph.node_count();
    // the parameters are any iterator of values: exact-size ones, and ones that cannot tell how
    // many values are left (`size_hint` of (0, None) / (0, Some(n)))
    let shape = mix(&[hash_str(name), hash_str(&format!("{:?}", args))]) % 4;
    let real = catch(|| match shape {
        0 => {
            let mut it = real_args.into_iter().filter(|_| true);
            functions.call(&Identifier::from(name), &mut graph, &w.source, &mut it)
        }
        1 => {
            let mut inner = real_args.into_iter();
            let mut it = std::iter::from_fn(move || inner.next());
            functions.call(&Identifier::from(name), &mut graph, &w.source, &mut it)
        }
        _ => {
            let mut it = real_args.into_iter();
            functions.call(&Identifier::from(name), &mut graph, &w.source, &mut it)
        }
    });
    out.feat(match shape {
        0 => "parameters:filtered_iterator",
        1 => "parameters:from_fn_iterator",
        _ => "parameters:vec_iterator",
    });
    out.eval();
    let case = || json!({"function": name, "arguments": args.iter().map(|a| a.to_json()).collect::<Vec<_>>(), "source": crate::util::trunc(&w.source, 300)});
    let real = match real {
        Err(p) => {
            out.violation(&format!("C13:panic:{}", name), &format!("({} ...) panicked at {}: {}", name, p.location, p.message), case());
            return None;
        }
        Ok(r) => r,
    };
    let h = mix(&[hash_str(name), hash_str(&format!("{:?}", args)), hash_str(&w.source)]);
    match (&expected, &real) {
        (Ok(mv), Ok(rv)) => {
            let observed = match observe_value(&graph, &w.ti, rv) {
                Ok(o) => o,
                Err(e) => {
                    out.violation(&format!("C13:unreadable-result:{}", name), &e, case());
                    return None;
                }
            };
            if render_involved(name, args) {
                // the order in which a set's elements are rendered is not laid down, how each one is
                // rendered is: whatever the order, the text consists of the same characters
                let letters = |v: &MVal| -> Option<Vec<char>> {
                    match v {
                        MVal::Str(s) => {
                            let mut cs: Vec<char> = s.chars().collect();
                            cs.sort();
                            Some(cs)
                        }
                        _ => None,
                    }
                };
                if letters(&observed) != letters(mv) || letters(mv).is_none() {
                    out.violation(&format!("C13:wrong-value:{}", name), &format!("({} ...) returned {:?}; whatever the order of set elements, the documented result has the characters of {:?}", name, observed, mv), case());
                    return None;
                }
                out.feat("set_rendering_checked_modulo_element_order");
                return Some(h);
            }
            if &observed != mv {
                out.violation(&format!("C13:wrong-value:{}", name), &format!("({} ...) returned {:?}, the documented result is {:?}", name, observed, mv), case());
                return None;
            }
            if name == "node" && (graph.node_count() != before + 1 || observed != MVal::GNode(before)) {
                out.violation("C13:node-not-fresh", "(node) did not return a fresh reference / grow the graph by one", case());
                return None;
            }
            if name != "node" && graph.node_count() != before {
                out.violation(&format!("C13:side-effect:{}", name), "the graph changed", case());
                return None;
            }
            out.feat(&format!("ok:{}", name));
        }
        (Err(_), Err(_)) => {
            out.feat(&format!("err:{}", name));
            if let Err(FnErr::Failed(m)) = &expected {
                if m == "overflow" {
                    out.feat("err:plus_overflow");
                }
            }
        }
        (Ok(mv), Err(e)) => {
            out.violation(&format!("C13:spurious-error:{}", name), &format!("({} ...) failed with {}, the documented result is {:?}", name, e, mv), case());
            return None;
        }
        (Err(fe), Ok(rv)) => {
            out.violation(&format!("C13:missing-error:{}", name), &format!("({} ...) returned {:?} although the contract makes it an error ({:?})", name, rv, fe), case());
            return None;
        }
    }
    Some(h)
}

impl Prop for C13 {
    fn id(&self) -> &'static str {
        "C13"
    }
    fn directed(&self) -> usize {
        1
    }
    fn cases(&self, cfg: &RunCfg) -> usize {
        match cfg.tier {
            Tier::Quick => 600,
            Tier::Thorough => 40_000,
        }
    }
    fn run_case(&self, cfg: &RunCfg, idx: usize, rng: &mut Rng, out: &mut Out) {
        // one world (source + tree) per case, many calls
        let source = if idx == 0 {
            "def f(a, b):\n    return a + b\nx = f(1, \"é\")\nif x:\n  print(x\n".to_string()
        } else {
            py::gen_any_source(rng, 6, 30)
        };
        let tree = parse_python(&source);
        let ti = TreeInfo::new(&tree);
        if ti.anomaly.is_some() {
            out.inconclusive("tree-sitter anomaly");
            return;
        }
        let mut interesting: Vec<usize> = vec![0];
        for (i, n) in ti.nodes.iter().enumerate() {
            if !n.named || n.is_error || n.is_missing || n.children.len() > 2 || i % 3 == 0 {
                interesting.push(i);
            }
        }
        for n in &ti.nodes {
            if n.is_error {
                out.feat("arg:error_node");
            }
            if n.is_missing {
                out.feat("arg:missing_node");
            }
            if !n.named {
                out.feat("arg:anonymous_node");
            }
        }
        let w = World { ti, source, interesting };
        let functions = Functions::stdlib();
        let gnodes = 3;
        if idx == 0 {
            // arity-exhaustive for lengths 0..2 over a 12-value palette, every function;
            // shards split the functions between them
            let pal: Vec<MVal> = vec![
                MVal::Null,
                MVal::Bool(true),
                MVal::Bool(false),
                MVal::Int(0),
                MVal::Int(u32::MAX),
                MVal::str("{}"),
                MVal::str("a"),
                MVal::List(vec![]),
                MVal::List(vec![MVal::Int(1), MVal::str("x")]),
                MVal::Set([MVal::Int(1)].into_iter().collect()),
                MVal::Syn(0),
                MVal::GNode(0),
            ];
            for (fi, name) in STDLIB_NAMES.iter().enumerate() {
                if fi % cfg.nshards != cfg.shard % cfg.nshards.max(1) && cfg.nshards > 1 {
                    continue;
                }
                if let Some(h) = one_call(name, &[], &w, gnodes, &functions, out) {
                    out.nontrivial(h);
                }
                for a in &pal {
                    if let Some(h) = one_call(name, &[a.clone()], &w, gnodes, &functions, out) {
                        out.nontrivial(h);
                    }
                    for b in &pal {
                        if let Some(h) = one_call(name, &[a.clone(), b.clone()], &w, gnodes, &functions, out) {
                            out.nontrivial(h);
                        }
                    }
                }
                out.feat("arity_exhaustive_function");
            }
            // an unknown function is an error as well
            let r = catch(|| {
                let mut g = Graph::new();
                let mut it = Vec::<Value>::new().into_iter();
                functions.call(&Identifier::from("no-such-function"), &mut g, "", &mut it).is_err()
            });
            out.eval();
            if r.ok() != Some(true) {
                out.violation("C13:unknown-function", "calling an unknown function did not return an error", json!({"function": "no-such-function"}));
            }
            return;
        }
        let calls = 400;
        for k in 0..calls {
            let name = *rng.pick(STDLIB_NAMES);
            let args: Vec<MVal> = if rng.chance(3, 5) {
                typed_args(rng, name, &w, gnodes)
            } else {
                (0..rng.below(5)).map(|_| palette(rng, &w, gnodes, 0)).collect()
            };
            if let Some(h) = one_call(name, &args, &w, gnodes, &functions, out) {
                out.nontrivial(h);
            }
            if k == 0 && out.want_sample() {
                out.sample(json!({"function": name, "arguments": args.iter().map(|a| a.to_json()).collect::<Vec<_>>(), "source": crate::util::trunc(&w.source, 200)}));
            }
        }
    }
}
