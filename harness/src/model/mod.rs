pub mod check;
pub mod interp;
pub mod stdlib;
pub mod value;
