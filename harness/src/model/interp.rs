//! Reference interpreter for the graph DSL, written from `src/reference/mod.rs`.
//! It interprets the harness's own AST (`GFile`) and shares no code with the crate.
//! Strict (stanza by stanza, match by match, statement by statement) semantics.

use super::stdlib::{self, FnCtx, FnErr};
use super::value::*;
use crate::gen::ast::*;
use crate::oracle::tree::TreeInfo;
use std::collections::{BTreeMap, BTreeSet, HashMap, HashSet};

/// One match of a stanza's query, as enumerated by the match oracle.
#[derive(Clone, Debug)]
pub struct MatchInfo {
    /// full-match node (tree index), None if tree-sitter reported a match without root node
    pub root: Option<usize>,
    /// capture name -> value already shaped by the capture's quantifier
    pub caps: BTreeMap<String, MVal>,
    /// capture name -> captured nodes (tree indices) in the order tree-sitter lists them
    pub raw: BTreeMap<String, Vec<usize>>,
}

#[derive(Clone, Debug, PartialEq, Eq, PartialOrd, Ord, Hash)]
pub enum ErrClass {
    MissingGlobal,
    ExpectedListGlobal,
    ExpectedType(&'static str),
    DuplicateAttribute,
    DuplicateVariable,
    UndefinedVariable,
    UndefinedScopedVariable,
    AssignImmutable,
    InvalidScope,
    UndefinedFunction,
    FunctionFailed,
    InvalidParameters,
    UndefinedEdge,
    UndefinedRegexCapture,
    EmptyRegexMatch,
    UndefinedCapture,
    /// constructs the model refuses to give a meaning to (the generator must not produce them)
    Unsupported(&'static str),
}

impl ErrClass {
    pub fn name(&self) -> String {
        match self {
            ErrClass::ExpectedType(t) => format!("ExpectedType({})", t),
            ErrClass::Unsupported(t) => format!("Unsupported({})", t),
            other => format!("{:?}", other),
        }
    }
}

#[derive(Clone, Debug)]
pub struct MError {
    pub class: ErrClass,
    pub stanza: usize,
    pub match_index: usize,
    /// id of the innermost statement being executed
    pub stmt_id: usize,
    /// ids of the enclosing statements, outermost first (includes stmt_id last)
    pub stmt_chain: Vec<usize>,
    /// for conflicts: id of the statement that set the previous value, if known
    pub other_stmt: Option<usize>,
}

#[derive(Clone, Debug, Default)]
pub struct Counters {
    pub statements: u64,
    pub statements_by_kind: BTreeMap<String, u64>,
    pub max_depth_executed: usize,
    pub attributes: u64,
    /// attribute values that reached a node or edge (shorthand applications excluded)
    pub attr_values_added: u64,
    /// executions of statements whose effect lazy mode defers (edge, attr, print)
    pub deferred_statements: u64,
    pub scan_iterations: u64,
    pub matches: u64,
    pub matches_per_stanza: Vec<u64>,
    pub nodes_created: u64,
    pub edges_created: u64,
    pub edge_recreated: u64,
    pub attr_reassigned_equal: u64,
    pub scoped_defs: u64,
    pub scoped_reads_own: u64,
    pub scoped_reads_inherited: u64,
    pub max_inherit_distance: usize,
    pub loop_iterations: u64,
    pub comprehension_iterations: u64,
    pub shorthand_expansions: u64,
    pub if_arms_taken: u64,
    pub if_no_arm: u64,
    pub calls: u64,
    pub block_runs: Vec<(usize, usize)>,
    /// executions of `node` statements: (statement id, full-match node of the match, graph node)
    pub node_stmt_runs: Vec<(usize, Option<usize>, usize)>,
    /// for every edge the `edge` statements that named it, in execution order
    pub edge_creators: BTreeMap<(usize, usize), Vec<usize>>,
}

pub enum Outcome {
    Graph(OGraph),
    Error(MError),
}

struct Binding {
    name: String,
    value: MVal,
    mutable: bool,
}

struct Env<'a> {
    scopes: Vec<Vec<Binding>>,
    regex: Option<Vec<String>>,
    caps: Option<&'a BTreeMap<String, MVal>>,
}

pub struct Interp<'a, 't> {
    pub file: &'a GFile,
    pub ti: &'a TreeInfo<'t>,
    pub source: &'a str,
    pub globals: BTreeMap<String, MVal>,
    pub graph: OGraph,
    /// (tree node index, name) -> (value, mutable, defining statement id)
    pub scoped: HashMap<(usize, String), (MVal, bool, usize)>,
    inherited: HashSet<String>,
    shorthands: HashMap<String, &'a GShorthand>,
    pub counters: Counters,
    /// (node or edge, attribute) -> statement id that set it
    attr_origin: HashMap<(usize, Option<usize>, String), usize>,
    chain: Vec<usize>,
    cur_stanza: usize,
    cur_match: usize,
    cur_root: Option<usize>,
    other_stmt: Option<usize>,
    /// scoped variables read before any definition existed anywhere (order sensitivity marker)
    pub order_sensitive_reads: u64,
    sh_depth: usize,
}

type R<T> = Result<T, ErrClass>;

impl<'a, 't> Interp<'a, 't> {
    pub fn new(
        file: &'a GFile,
        ti: &'a TreeInfo<'t>,
        source: &'a str,
        supplied_globals: &BTreeMap<String, MVal>,
        initial: Option<OGraph>,
    ) -> Interp<'a, 't> {
        let mut shorthands = HashMap::new();
        for s in file.shorthands() {
            shorthands.insert(s.name.clone(), s);
        }
        Interp {
            file,
            ti,
            source,
            globals: supplied_globals.clone(),
            graph: initial.unwrap_or_default(),
            scoped: HashMap::new(),
            inherited: file.inherits().iter().map(|s| s.to_string()).collect(),
            shorthands,
            counters: Counters::default(),
            attr_origin: HashMap::new(),
            chain: Vec::new(),
            cur_stanza: 0,
            cur_match: 0,
            cur_root: None,
            other_stmt: None,
            order_sensitive_reads: 0,
            sh_depth: 0,
        }
    }

    fn err(&self, class: ErrClass) -> MError {
        MError {
            class,
            stanza: self.cur_stanza,
            match_index: self.cur_match,
            stmt_id: self.chain.last().copied().unwrap_or(usize::MAX),
            stmt_chain: self.chain.clone(),
            other_stmt: self.other_stmt,
        }
    }

    /// Run the whole file. `matches[i]` are the matches of stanza i in tree-sitter's order.
    pub fn run(mut self, matches: &[Vec<MatchInfo>]) -> (Outcome, Counters) {
        // globals: required unless defaulted; list-typed when declared so
        for g in self.file.globals() {
            match self.globals.get(&g.name) {
                None => match &g.default {
                    Some(d) => {
                        self.globals.insert(g.name.clone(), MVal::Str(d.clone()));
                    }
                    None => {
                        let e = self.err(ErrClass::MissingGlobal);
                        return (Outcome::Error(e), self.counters);
                    }
                },
                Some(v) => {
                    if g.quant.is_list() && !matches!(v, MVal::List(_)) {
                        let e = self.err(ErrClass::ExpectedListGlobal);
                        return (Outcome::Error(e), self.counters);
                    }
                }
            }
        }
        let stanzas = self.file.stanzas();
        self.counters.matches_per_stanza = vec![0; stanzas.len()];
        for (si, st) in stanzas.iter().enumerate() {
            self.cur_stanza = si;
            for (mi, m) in matches[si].iter().enumerate() {
                self.cur_match = mi;
                self.cur_root = m.root;
                self.counters.matches += 1;
                self.counters.matches_per_stanza[si] += 1;
                self.counters.block_runs.push((si, mi));
                let mut env = Env {
                    scopes: vec![Vec::new()],
                    regex: None,
                    caps: Some(&m.caps),
                };
                for s in &st.stmts {
                    if let Err(c) = self.stmt(s, &mut env, 0) {
                        let e = self.err(c);
                        return (Outcome::Error(e), self.counters);
                    }
                }
            }
        }
        (Outcome::Graph(self.graph), self.counters)
    }

    fn block(&mut self, stmts: &'a [GStmt], env: &mut Env, depth: usize) -> R<()> {
        for s in stmts {
            self.stmt(s, env, depth)?;
        }
        Ok(())
    }

    fn stmt(&mut self, s: &'a GStmt, env: &mut Env, depth: usize) -> R<()> {
        self.chain.push(s.id);
        let r = self.stmt_inner(s, env, depth);
        if r.is_ok() {
            self.chain.pop();
        }
        r
    }

    fn stmt_inner(&mut self, s: &'a GStmt, env: &mut Env, depth: usize) -> R<()> {
        self.counters.statements += 1;
        if self.counters.statements > 3_000_000 {
            // the reference model gives up on programs this heavy (counted as inconclusive)
            return Err(ErrClass::Unsupported("model step budget"));
        }
        *self
            .counters
            .statements_by_kind
            .entry(format!("{}@{}", s.kind.name(), depth.min(6)))
            .or_insert(0) += 1;
        if depth > self.counters.max_depth_executed {
            self.counters.max_depth_executed = depth;
        }
        if matches!(s.kind, StmtKind::Edge(..) | StmtKind::AttrNode(..) | StmtKind::AttrEdge(..) | StmtKind::Print(..)) {
            self.counters.deferred_statements += 1;
        }
        match &s.kind {
            StmtKind::Let(v, e) => {
                let val = self.expr(e, env)?;
                self.define(v, val, false, env, s.id)
            }
            StmtKind::Var(v, e) => {
                let val = self.expr(e, env)?;
                self.define(v, val, true, env, s.id)
            }
            StmtKind::Set(v, e) => {
                let val = self.expr(e, env)?;
                self.assign(v, val, env)
            }
            StmtKind::Node(v) => {
                let n = self.graph.add_node();
                self.counters.nodes_created += 1;
                let root = self.cur_root;
                self.counters.node_stmt_runs.push((s.id, root, n));
                self.define(v, MVal::GNode(n), false, env, s.id)
            }
            StmtKind::Edge(a, b) => {
                let a = self.gnode(a, env)?;
                let b = self.gnode(b, env)?;
                self.counters.edge_creators.entry((a, b)).or_default().push(s.id);
                if self.graph.nodes[a].edges.contains_key(&b) {
                    self.counters.edge_recreated += 1;
                } else {
                    self.graph.nodes[a].edges.insert(b, Attrs::new());
                    self.counters.edges_created += 1;
                }
                Ok(())
            }
            StmtKind::AttrNode(n, attrs) => {
                let n = self.gnode(n, env)?;
                for a in attrs {
                    self.attribute(a, env, n, None, s.id)?;
                }
                Ok(())
            }
            StmtKind::AttrEdge(a, b, attrs) => {
                let a = self.gnode(a, env)?;
                let b = self.gnode(b, env)?;
                for at in attrs {
                    self.attribute(at, env, a, Some(b), s.id)?;
                }
                Ok(())
            }
            StmtKind::Print(xs) => {
                for x in xs {
                    if let GExpr::Str(_) = x {
                        continue;
                    }
                    self.expr(x, env)?;
                }
                Ok(())
            }
            StmtKind::Scan(e, arms) => {
                let subject = match self.expr(e, env)? {
                    MVal::Str(s) => s,
                    _ => return Err(ErrClass::ExpectedType("string")),
                };
                self.scan(&subject, arms, env, depth)
            }
            StmtKind::If(arms) => {
                for arm in arms {
                    let mut all = true;
                    for c in &arm.conds {
                        let v = self.expr(&c.expr, env)?;
                        let ok = match c.kind {
                            CondKind::Some => v != MVal::Null,
                            CondKind::None => v == MVal::Null,
                            CondKind::Bool => match v {
                                MVal::Bool(b) => b,
                                _ => return Err(ErrClass::ExpectedType("boolean")),
                            },
                        };
                        all = all && ok;
                    }
                    if all {
                        self.counters.if_arms_taken += 1;
                        env.scopes.push(Vec::new());
                        let r = self.block(&arm.stmts, env, depth + 1);
                        env.scopes.pop();
                        return r;
                    }
                }
                self.counters.if_no_arm += 1;
                Ok(())
            }
            StmtKind::For(v, e, body) => {
                let xs = match self.expr(e, env)? {
                    MVal::List(xs) => xs,
                    _ => return Err(ErrClass::ExpectedType("list")),
                };
                for x in xs {
                    self.counters.loop_iterations += 1;
                    env.scopes.push(Vec::new());
                    let r = self
                        .define_local(&v.name, x, false, env)
                        .and_then(|_| self.block(body, env, depth + 1));
                    env.scopes.pop();
                    r?;
                }
                Ok(())
            }
        }
    }

    fn scan(&mut self, subject: &str, arms: &'a [GArm], env: &mut Env, depth: usize) -> R<()> {
        // compiled once per thread: a scan inside nested loops runs thousands of times
        thread_local! {
            static COMPILED: std::cell::RefCell<HashMap<String, Option<regex::Regex>>> = std::cell::RefCell::new(HashMap::new());
        }
        let regexes: Vec<regex::Regex> = arms
            .iter()
            .map(|a| {
                COMPILED.with(|c| {
                    let mut c = c.borrow_mut();
                    if c.len() > 4096 {
                        c.clear();
                    }
                    c.entry(a.regex.clone()).or_insert_with(|| regex::Regex::new(&a.regex).ok()).clone()
                })
            })
            .collect::<Option<_>>()
            .ok_or(ErrClass::Unsupported("invalid regex"))?;
        let mut pos = 0usize;
        while pos < subject.len() {
            // earliest match at or after `pos`, earlier arm first on ties; matching is done on
            // the remaining text (so anchors see the restart point as the beginning)
            let rest = &subject[pos..];
            let mut best: Option<(usize, usize, regex::Captures)> = None;
            let mut any_empty = false;
            for (ai, re) in regexes.iter().enumerate() {
                if let Some(c) = re.captures(rest) {
                    let m = c.get(0).unwrap();
                    if m.start() == m.end() {
                        any_empty = true;
                    }
                    let better = match &best {
                        None => true,
                        Some((bs, _, _)) => m.start() < *bs,
                    };
                    if better {
                        best = Some((m.start(), ai, c));
                    }
                }
            }
            let (_, ai, caps) = match best {
                None => return Ok(()),
                Some(b) => b,
            };
            let m0 = caps.get(0).unwrap();
            if m0.start() == m0.end() || any_empty {
                // an empty selected match must be an error; an empty match of another arm is
                // tolerated either way by the comparison (see `scan_tolerant` in the caller)
                return Err(ErrClass::EmptyRegexMatch);
            }
            self.counters.scan_iterations += 1;
            let groups: Vec<String> = caps
                .iter()
                .map(|g| g.map(|m| m.as_str().to_string()).unwrap_or_default())
                .collect();
            let saved = env.regex.replace(groups);
            env.scopes.push(Vec::new());
            let r = self.block(&arms[ai].stmts, env, depth + 1);
            env.scopes.pop();
            env.regex = saved;
            r?;
            pos += m0.end();
        }
        Ok(())
    }

    fn gnode(&mut self, e: &'a GExpr, env: &mut Env) -> R<usize> {
        match self.expr(e, env)? {
            MVal::GNode(n) => Ok(n),
            _ => Err(ErrClass::ExpectedType("graph node")),
        }
    }

    fn attribute(
        &mut self,
        a: &'a GAttr,
        env: &mut Env,
        node: usize,
        sink: Option<usize>,
        stmt_id: usize,
    ) -> R<()> {
        self.counters.attributes += 1;
        let val = match &a.value {
            Some(e) => self.expr(e, env)?,
            None => MVal::Bool(true),
        };
        if let Some(sh) = self.shorthands.get(&a.name).copied() {
            self.counters.shorthand_expansions += 1;
            if self.sh_depth > 40 {
                return Err(ErrClass::Unsupported("shorthand recursion"));
            }
            // only the shorthand's parameter (and globals) are visible inside
            let mut inner = Env {
                scopes: vec![Vec::new()],
                regex: env.regex.clone(),
                caps: None,
            };
            self.define_local(&sh.var.name, val, false, &mut inner)?;
            self.sh_depth += 1;
            for sa in &sh.attrs {
                self.attribute(sa, &mut inner, node, sink, stmt_id)?;
            }
            self.sh_depth -= 1;
            return Ok(());
        }
        self.counters.attr_values_added += 1;
        let target: &mut Attrs = match sink {
            None => &mut self.graph.nodes[node].attrs,
            Some(s) => match self.graph.nodes[node].edges.get_mut(&s) {
                Some(e) => e,
                None => return Err(ErrClass::UndefinedEdge),
            },
        };
        match target.get(&a.name) {
            Some(old) if *old == val => {
                self.counters.attr_reassigned_equal += 1;
                Ok(())
            }
            Some(_) => {
                self.other_stmt = self.attr_origin.get(&(node, sink, a.name.clone())).copied();
                Err(ErrClass::DuplicateAttribute)
            }
            None => {
                target.insert(a.name.clone(), val);
                self.attr_origin.insert((node, sink, a.name.clone()), stmt_id);
                Ok(())
            }
        }
    }

    fn define_local(&mut self, name: &str, val: MVal, mutable: bool, env: &mut Env) -> R<()> {
        if self.globals.contains_key(name) {
            return Err(ErrClass::DuplicateVariable);
        }
        let scope = env.scopes.last_mut().unwrap();
        if scope.iter().any(|b| b.name == name) {
            return Err(ErrClass::DuplicateVariable);
        }
        scope.push(Binding {
            name: name.to_string(),
            value: val,
            mutable,
        });
        Ok(())
    }

    fn scope_node(&mut self, scope: &'a GExpr, env: &mut Env) -> R<usize> {
        match self.expr(scope, env)? {
            MVal::Syn(i) => Ok(i),
            _ => Err(ErrClass::InvalidScope),
        }
    }

    fn define(&mut self, v: &'a GVar, val: MVal, mutable: bool, env: &mut Env, stmt_id: usize) -> R<()> {
        match v {
            GVar::Unscoped(u) => self.define_local(&u.name, val, mutable, env),
            GVar::Scoped(scope, name, _) => {
                let node = self.scope_node(scope, env)?;
                let key = (node, name.clone());
                if let Some((_, _, prev)) = self.scoped.get(&key) {
                    self.other_stmt = Some(*prev);
                    return Err(ErrClass::DuplicateVariable);
                }
                self.counters.scoped_defs += 1;
                self.scoped.insert(key, (val, mutable, stmt_id));
                Ok(())
            }
        }
    }

    fn assign(&mut self, v: &'a GVar, val: MVal, env: &mut Env) -> R<()> {
        match v {
            GVar::Unscoped(u) => {
                if self.globals.contains_key(&u.name) {
                    return Err(ErrClass::AssignImmutable);
                }
                for scope in env.scopes.iter_mut().rev() {
                    if let Some(b) = scope.iter_mut().find(|b| b.name == u.name) {
                        if !b.mutable {
                            return Err(ErrClass::AssignImmutable);
                        }
                        b.value = val;
                        return Ok(());
                    }
                }
                Err(ErrClass::UndefinedVariable)
            }
            GVar::Scoped(scope, name, _) => {
                let node = self.scope_node(scope, env)?;
                match self.scoped.get_mut(&(node, name.clone())) {
                    Some((old, true, _)) => {
                        *old = val;
                        Ok(())
                    }
                    Some((_, false, _)) => Err(ErrClass::AssignImmutable),
                    None => Err(ErrClass::UndefinedVariable),
                }
            }
        }
    }

    fn lookup_scoped(&mut self, node: usize, name: &str) -> R<MVal> {
        if let Some((v, _, _)) = self.scoped.get(&(node, name.to_string())) {
            self.counters.scoped_reads_own += 1;
            return Ok(v.clone());
        }
        if self.inherited.contains(name) {
            let mut dist = 0;
            let mut cur = self.ti.nodes[node].parent;
            while let Some(p) = cur {
                dist += 1;
                if let Some((v, _, _)) = self.scoped.get(&(p, name.to_string())) {
                    self.counters.scoped_reads_inherited += 1;
                    if dist > self.counters.max_inherit_distance {
                        self.counters.max_inherit_distance = dist;
                    }
                    return Ok(v.clone());
                }
                cur = self.ti.nodes[p].parent;
            }
        }
        Err(ErrClass::UndefinedScopedVariable)
    }

    fn expr(&mut self, e: &'a GExpr, env: &mut Env) -> R<MVal> {
        Ok(match e {
            GExpr::Null => MVal::Null,
            GExpr::True => MVal::Bool(true),
            GExpr::False => MVal::Bool(false),
            GExpr::Int(i) => MVal::Int(*i),
            GExpr::Str(s) => MVal::Str(s.clone()),
            GExpr::List(xs) => {
                let mut out = Vec::new();
                for x in xs {
                    out.push(self.expr(x, env)?);
                }
                MVal::List(out)
            }
            GExpr::Set(xs) => {
                let mut out = BTreeSet::new();
                for x in xs {
                    out.insert(self.expr(x, env)?);
                }
                MVal::Set(out)
            }
            GExpr::ListComp { elem, var, src, .. } | GExpr::SetComp { elem, var, src, .. } => {
                let xs = match self.expr(src, env)? {
                    MVal::List(xs) => xs,
                    _ => return Err(ErrClass::ExpectedType("list")),
                };
                let mut out = Vec::new();
                for x in xs {
                    self.counters.comprehension_iterations += 1;
                    env.scopes.push(Vec::new());
                    let r = self
                        .define_local(&var.name, x, false, env)
                        .and_then(|_| self.expr(elem, env));
                    env.scopes.pop();
                    out.push(r?);
                }
                if matches!(e, GExpr::ListComp { .. }) {
                    MVal::List(out)
                } else {
                    MVal::Set(out.into_iter().collect())
                }
            }
            GExpr::Capture(name, _) => match env.caps {
                None => return Err(ErrClass::Unsupported("capture inside shorthand")),
                Some(caps) => match caps.get(name) {
                    Some(v) => v.clone(),
                    None => return Err(ErrClass::UndefinedCapture),
                },
            },
            GExpr::Var(GVar::Unscoped(u)) => {
                if let Some(v) = self.globals.get(&u.name) {
                    v.clone()
                } else {
                    let mut found = None;
                    for scope in env.scopes.iter().rev() {
                        if let Some(b) = scope.iter().find(|b| b.name == u.name) {
                            found = Some(b.value.clone());
                            break;
                        }
                    }
                    match found {
                        Some(v) => v,
                        None => return Err(ErrClass::UndefinedVariable),
                    }
                }
            }
            GExpr::Var(GVar::Scoped(scope, name, _)) => {
                let node = self.scope_node(scope, env)?;
                self.lookup_scoped(node, name)?
            }
            GExpr::Call(f, args) => {
                let mut vals = Vec::new();
                for a in args {
                    vals.push(self.expr(a, env)?);
                }
                self.counters.calls += 1;
                let before = self.graph.nodes.len();
                let mut ctx = FnCtx {
                    ti: self.ti,
                    source: self.source,
                    graph: &mut self.graph,
                };
                let r = stdlib::call(f, &vals, &mut ctx);
                if self.graph.nodes.len() > before {
                    self.counters.nodes_created += 1;
                }
                match r {
                    Ok(v) => v,
                    Err(FnErr::Undefined) => return Err(ErrClass::UndefinedFunction),
                    Err(FnErr::Arity) => return Err(ErrClass::InvalidParameters),
                    Err(FnErr::Type) => return Err(ErrClass::ExpectedType("argument")),
                    Err(FnErr::Failed(_)) => return Err(ErrClass::FunctionFailed),
                }
            }
            GExpr::RegexCap(i) => match &env.regex {
                Some(groups) if *i < groups.len() => MVal::Str(groups[*i].clone()),
                _ => return Err(ErrClass::UndefinedRegexCapture),
            },
        })
    }
}
