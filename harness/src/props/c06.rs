//! C06 – the static checker rejects exactly the programs that break a documented rule.
//! Fault enumeration: from each valid generated program, one rule violation of the catalogue is
//! injected at every block of the program (every nesting context); the harness's own static
//! checker decides the expected rule and the admissible locations.

use super::common::*;
use crate::gen::ast::*;
use crate::gen::dsl::{gen_program, GenCfg};
use crate::gen::print::{print_house, print_wild};
use crate::gen::query::POOL;
use crate::model::check::{Checker, Rule};
use crate::oracle::exec::{self, Loaded};
use crate::util::{hash_str, Out, Rng};
use crate::{Prop, RunCfg, Tier};
use serde_json::json;
use tree_sitter_graph::verif_hooks::CheckError;
use tree_sitter_graph::{ParseError, VariableError};

pub struct C06;

#[derive(Clone, Copy, Debug, PartialEq, Eq)]
pub enum BlockKind {
    Top,
    IfArm,
    ElifArm,
    ElseArm,
    ForBody,
    ScanArm,
}

impl BlockKind {
    pub fn name(&self) -> &'static str {
        match self {
            BlockKind::Top => "top",
            BlockKind::IfArm => "if",
            BlockKind::ElifArm => "elif",
            BlockKind::ElseArm => "else",
            BlockKind::ForBody => "for",
            BlockKind::ScanArm => "scan_arm",
        }
    }
}

/// preorder enumeration of all blocks: (stanza index, depth, kind)
pub fn list_blocks(file: &GFile) -> Vec<(usize, usize, BlockKind)> {
    fn go(stmts: &[GStmt], si: usize, depth: usize, out: &mut Vec<(usize, usize, BlockKind)>) {
        for s in stmts {
            match &s.kind {
                StmtKind::If(arms) => {
                    for (i, a) in arms.iter().enumerate() {
                        let k = if i == 0 { BlockKind::IfArm } else if a.conds.is_empty() { BlockKind::ElseArm } else { BlockKind::ElifArm };
                        out.push((si, depth + 1, k));
                        go(&a.stmts, si, depth + 1, out);
                    }
                }
                StmtKind::For(_, _, body) => {
                    out.push((si, depth + 1, BlockKind::ForBody));
                    go(body, si, depth + 1, out);
                }
                StmtKind::Scan(_, arms) => {
                    for a in arms {
                        out.push((si, depth + 1, BlockKind::ScanArm));
                        go(&a.stmts, si, depth + 1, out);
                    }
                }
                _ => {}
            }
        }
    }
    let mut out = Vec::new();
    for (si, st) in file.stanzas().iter().enumerate() {
        out.push((si, 0, BlockKind::Top));
        go(&st.stmts, si, 0, &mut out);
    }
    out
}

/// apply `f` to the `target`-th block (same preorder as `list_blocks`)
pub fn with_block(file: &mut GFile, target: usize, f: &mut dyn FnMut(&mut Vec<GStmt>)) {
    fn go(stmts: &mut Vec<GStmt>, counter: &mut usize, target: usize, f: &mut dyn FnMut(&mut Vec<GStmt>)) -> bool {
        for s in stmts.iter_mut() {
            match &mut s.kind {
                StmtKind::If(arms) => {
                    for a in arms.iter_mut() {
                        if *counter == target {
                            f(&mut a.stmts);
                            return true;
                        }
                        *counter += 1;
                        if go(&mut a.stmts, counter, target, f) {
                            return true;
                        }
                    }
                }
                StmtKind::For(_, _, body) => {
                    if *counter == target {
                        f(body);
                        return true;
                    }
                    *counter += 1;
                    if go(body, counter, target, f) {
                        return true;
                    }
                }
                StmtKind::Scan(_, arms) => {
                    for a in arms.iter_mut() {
                        if *counter == target {
                            f(&mut a.stmts);
                            return true;
                        }
                        *counter += 1;
                        if go(&mut a.stmts, counter, target, f) {
                            return true;
                        }
                    }
                }
                _ => {}
            }
        }
        false
    }
    let mut counter = 0;
    for st in file.stanzas_mut() {
        if counter == target {
            f(&mut st.stmts);
            return;
        }
        counter += 1;
        if go(&mut st.stmts, &mut counter, target, f) {
            return;
        }
    }
}

const RULES: &[Rule] = &[
    Rule::UndefinedVariable,
    Rule::Redefinition,
    Rule::AssignImmutable,
    Rule::AssignUndefined,
    Rule::SetGlobal,
    Rule::HideGlobal,
    Rule::DuplicateGlobal,
    Rule::UnusedCapture,
    Rule::UndefinedCapture,
    Rule::ExpectedLocal,
    Rule::ExpectedOptional,
    Rule::ExpectedList,
    Rule::NullableRegex,
];

fn s(k: StmtKind) -> GStmt {
    stmt(k)
}
fn let_(n: &str, e: GExpr) -> GStmt {
    s(StmtKind::Let(GVar::u(n), e))
}
fn var_(n: &str, e: GExpr) -> GStmt {
    s(StmtKind::Var(GVar::u(n), e))
}
fn print_(e: GExpr) -> GStmt {
    s(StmtKind::Print(vec![e]))
}
fn if_(c: GCond, body: Vec<GStmt>) -> GStmt {
    s(StmtKind::If(vec![GIfArm { conds: vec![c], stmts: body, loc: Loc::default() }]))
}
fn cond(kind: CondKind, e: GExpr) -> GCond {
    GCond { kind, expr: e, loc: Loc::default() }
}
fn for_(v: &str, e: GExpr, body: Vec<GStmt>) -> GStmt {
    s(StmtKind::For(GUVar::new(v), e, body))
}
fn scan_(e: GExpr, re: &str, body: Vec<GStmt>) -> GStmt {
    s(StmtKind::Scan(e, vec![GArm { regex: re.into(), stmts: body, loc: Loc::default() }]))
}
fn lcomp(elem: GExpr, v: &str, src: GExpr) -> GExpr {
    GExpr::ListComp { elem: Box::new(elem), var: GUVar::new(v), src: Box::new(src), loc: Loc::default() }
}
fn scomp(elem: GExpr, v: &str, src: GExpr) -> GExpr {
    GExpr::SetComp { elem: Box::new(elem), var: GUVar::new(v), src: Box::new(src), loc: Loc::default() }
}

/// a value that is *not* local, reaching the construct through several forms
fn nonlocal_value(rng: &mut Rng, cap: &str, pre: &mut Vec<GStmt>) -> (GExpr, &'static str) {
    match rng.below(17) {
        0 => (GExpr::scoped(GExpr::cap(cap), "zq_scoped"), "scoped_read"),
        1 => {
            pre.push(var_("zq_m", GExpr::str("ab")));
            (GExpr::var("zq_m"), "mutable_var")
        }
        2 => {
            pre.push(var_("zq_m", GExpr::str("ab")));
            pre.push(let_("zq_l1", GExpr::var("zq_m")));
            pre.push(let_("zq_l2", GExpr::var("zq_l1")));
            (GExpr::var("zq_l2"), "mutable_via_two_lets")
        }
        3 => {
            pre.push(let_("zq_l1", GExpr::scoped(GExpr::cap(cap), "zq_scoped")));
            (GExpr::call("format", vec![GExpr::str("{}"), GExpr::var("zq_l1")]), "scoped_via_let_and_call")
        }
        4 => {
            pre.push(var_("zq_m", GExpr::Int(1)));
            (GExpr::List(vec![GExpr::Int(0), GExpr::var("zq_m")]), "mutable_in_list_literal_last")
        }
        5 => {
            pre.push(var_("zq_m", GExpr::Int(1)));
            (GExpr::List(vec![GExpr::var("zq_m"), GExpr::Int(0)]), "mutable_in_list_literal_first")
        }
        6 => {
            pre.push(var_("zq_m", GExpr::str("a")));
            pre.push(s(StmtKind::Set(GVar::u("zq_m"), GExpr::str("b"))));
            (GExpr::var("zq_m"), "mutable_after_set_to_local")
        }
        8 => (
            GExpr::call("format", vec![GExpr::str("{}{}"), GExpr::scoped(GExpr::cap(cap), "zq_scoped"), GExpr::str("local last argument")]),
            "call_with_scoped_argument_before_local_ones",
        ),
        9 => {
            pre.push(var_("zq_m", GExpr::Int(1)));
            (GExpr::call("plus", vec![GExpr::var("zq_m"), GExpr::Int(1), GExpr::Int(2)]), "call_with_mutable_argument_first")
        }
        11 => (
            scomp(GExpr::scoped(GExpr::var("zq_e"), "zq_scoped"), "zq_e", GExpr::List(vec![GExpr::cap(cap)])),
            "set_comprehension_with_scoped_element",
        ),
        12 => {
            pre.push(var_("zq_m", GExpr::Int(1)));
            (scomp(GExpr::var("zq_m"), "zq_e", GExpr::List(vec![GExpr::Int(1), GExpr::Int(2)])), "set_comprehension_with_mutable_element")
        }
        13 => {
            pre.push(let_("zq_l1", scomp(GExpr::scoped(GExpr::var("zq_e"), "zq_scoped"), "zq_e", GExpr::List(vec![GExpr::cap(cap)]))));
            (GExpr::var("zq_l1"), "set_comprehension_with_scoped_element_via_let")
        }
        14 => {
            pre.push(var_("zq_m", GExpr::Int(1)));
            (GExpr::Set(vec![GExpr::Int(0), GExpr::var("zq_m")]), "mutable_in_set_literal")
        }
        15 => {
            pre.push(var_("zq_m", GExpr::Int(1)));
            (lcomp(GExpr::var("zq_m"), "zq_e", GExpr::List(vec![GExpr::Int(1)])), "list_comprehension_with_mutable_element")
        }
        16 => (
            GExpr::List(vec![scomp(GExpr::scoped(GExpr::var("zq_e"), "zq_scoped"), "zq_e", GExpr::List(vec![GExpr::cap(cap)]))]),
            "set_comprehension_with_scoped_element_in_list",
        ),
        _ => (
            lcomp(GExpr::scoped(GExpr::var("zq_e"), "zq_scoped"), "zq_e", GExpr::List(vec![GExpr::cap(cap)])),
            "comprehension_with_scoped_element",
        ),
    }
}

/// Build the statements that break `rule`. Returns (statements, variant name, needs global).
fn violation(rule: Rule, rng: &mut Rng, cap: &str) -> (Vec<GStmt>, &'static str, bool) {
    match rule {
        Rule::UndefinedVariable => match rng.below(14) {
            // later elements of a literal are checked even when an earlier one is not local
            12 => (vec![print_(GExpr::Set(vec![GExpr::scoped(GExpr::cap(cap), "zq_scoped"), GExpr::var("zq_undefined")]))], "set_literal_element_after_scoped_one", false),
            13 => (vec![var_("zq_m", GExpr::Int(1)), print_(GExpr::List(vec![GExpr::var("zq_m"), GExpr::Int(0), GExpr::var("zq_undefined")]))], "list_literal_element_after_mutable_one", false),
            0 => (vec![print_(GExpr::var("zq_undefined"))], "plain_use", false),
            // every expression position of every statement form is checked
            6 => (vec![s(StmtKind::Node(GVar::u("zq_n"))), s(StmtKind::Edge(GExpr::var("zq_n"), GExpr::var("zq_undefined")))], "edge_sink", false),
            7 => (vec![s(StmtKind::Node(GVar::u("zq_n"))), s(StmtKind::Edge(GExpr::var("zq_undefined"), GExpr::var("zq_n")))], "edge_source", false),
            8 => (vec![s(StmtKind::Node(GVar::u("zq_n"))), s(StmtKind::Edge(GExpr::var("zq_n"), GExpr::var("zq_n"))), s(StmtKind::AttrEdge(GExpr::var("zq_n"), GExpr::var("zq_undefined"), vec![GAttr { name: "k".into(), value: Some(GExpr::Int(1)) }]))], "edge_attribute_sink", false),
            9 => (vec![s(StmtKind::Node(GVar::u("zq_n"))), s(StmtKind::Edge(GExpr::var("zq_n"), GExpr::var("zq_n"))), s(StmtKind::AttrEdge(GExpr::var("zq_undefined"), GExpr::var("zq_n"), vec![GAttr { name: "k".into(), value: Some(GExpr::Int(1)) }]))], "edge_attribute_source", false),
            10 => (vec![s(StmtKind::AttrNode(GExpr::var("zq_undefined"), vec![GAttr { name: "k".into(), value: Some(GExpr::Int(1)) }]))], "node_attribute_target", false),
            11 => (vec![s(StmtKind::Node(GVar::u("zq_n"))), s(StmtKind::Edge(GExpr::var("zq_n"), GExpr::var("zq_n"))), s(StmtKind::AttrEdge(GExpr::var("zq_n"), GExpr::var("zq_n"), vec![GAttr { name: "k".into(), value: Some(GExpr::Int(1)) }, GAttr { name: "l".into(), value: Some(GExpr::var("zq_undefined")) }]))], "edge_attribute_value", false),
            1 => (vec![if_(cond(CondKind::Bool, GExpr::True), vec![let_("zq_inner", GExpr::Int(1))]), print_(GExpr::var("zq_inner"))], "use_after_if_block", false),
            2 => (vec![for_("zq_x", GExpr::List(vec![GExpr::Int(1)]), vec![]), print_(GExpr::var("zq_x"))], "loop_variable_after_loop", false),
            3 => (vec![let_("zq_l", lcomp(GExpr::var("zq_y"), "zq_y", GExpr::List(vec![]))), print_(GExpr::var("zq_y"))], "comprehension_variable_outside", false),
            4 => (vec![scan_(GExpr::str("a"), "a", vec![let_("zq_inner", GExpr::Int(1))]), s(StmtKind::Node(GVar::u("zq_n"))), s(StmtKind::AttrNode(GExpr::var("zq_n"), vec![GAttr { name: "k".into(), value: Some(GExpr::List(vec![GExpr::Int(1), GExpr::call("plus", vec![GExpr::var("zq_inner")])])) }]))], "scan_arm_variable_outside_nested_in_call", false),
            _ => (vec![let_("zq_a", GExpr::var("zq_a"))], "self_reference_in_let", false),
        },
        Rule::Redefinition => match rng.below(4) {
            0 => (vec![let_("zq_dup", GExpr::Int(1)), let_("zq_dup", GExpr::Int(2))], "let_let", false),
            1 => (vec![s(StmtKind::Node(GVar::u("zq_dup"))), var_("zq_dup", GExpr::Int(2))], "node_var", false),
            2 => (vec![var_("zq_dup", GExpr::Int(1)), s(StmtKind::Node(GVar::u("zq_dup")))], "var_node", false),
            _ => (vec![for_("zq_dup", GExpr::List(vec![GExpr::Int(1)]), vec![let_("zq_dup", GExpr::Int(2))])], "loop_variable_redefined_in_body", false),
        },
        Rule::AssignImmutable => match rng.below(3) {
            0 => (vec![let_("zq_imm", GExpr::Int(1)), s(StmtKind::Set(GVar::u("zq_imm"), GExpr::Int(2)))], "set_let", false),
            1 => (vec![s(StmtKind::Node(GVar::u("zq_imm"))), if_(cond(CondKind::Bool, GExpr::True), vec![s(StmtKind::Set(GVar::u("zq_imm"), GExpr::Int(2)))])], "set_node_variable_in_nested_block", false),
            _ => (vec![for_("zq_imm", GExpr::List(vec![GExpr::Int(1)]), vec![s(StmtKind::Set(GVar::u("zq_imm"), GExpr::Int(2)))])], "set_loop_variable", false),
        },
        Rule::AssignUndefined => match rng.below(2) {
            0 => (vec![s(StmtKind::Set(GVar::u("zq_nowhere"), GExpr::Int(1)))], "set_undefined", false),
            _ => (vec![if_(cond(CondKind::Bool, GExpr::True), vec![var_("zq_inner", GExpr::Int(1))]), s(StmtKind::Set(GVar::u("zq_inner"), GExpr::Int(2)))], "set_out_of_scope", false),
        },
        Rule::SetGlobal => match rng.below(2) {
            0 => (vec![s(StmtKind::Set(GVar::u("zq_global"), GExpr::Int(1)))], "set_global", true),
            _ => (vec![for_("zq_x", GExpr::List(vec![GExpr::Int(1)]), vec![s(StmtKind::Set(GVar::u("zq_global"), GExpr::var("zq_x")))])], "set_global_in_loop", true),
        },
        Rule::HideGlobal => match rng.below(5) {
            0 => (vec![let_("zq_global", GExpr::Int(1))], "let", true),
            1 => (vec![var_("zq_global", GExpr::Int(1))], "var", true),
            2 => (vec![s(StmtKind::Node(GVar::u("zq_global")))], "node", true),
            3 => (vec![for_("zq_global", GExpr::List(vec![]), vec![])], "loop_variable", true),
            _ => (vec![print_(scomp(GExpr::Int(1), "zq_global", GExpr::List(vec![])))], "comprehension_variable", true),
        },
        Rule::DuplicateGlobal => (vec![], "second_declaration", true),
        Rule::UnusedCapture => (vec![], "extra_stanza", false),
        Rule::UndefinedCapture => match rng.below(6) {
            0 => (vec![print_(GExpr::cap("zq_nocap"))], "plain", false),
            3 => (vec![s(StmtKind::Node(GVar::u("zq_n"))), s(StmtKind::Edge(GExpr::var("zq_n"), GExpr::var("zq_n"))), s(StmtKind::AttrEdge(GExpr::var("zq_n"), GExpr::scoped(GExpr::cap("zq_nocap"), "v"), vec![GAttr { name: "k".into(), value: Some(GExpr::Int(1)) }]))], "edge_attribute_sink", false),
            4 => (vec![s(StmtKind::Node(GVar::u("zq_n"))), s(StmtKind::Edge(GExpr::var("zq_n"), GExpr::scoped(GExpr::cap("zq_nocap"), "v")))], "edge_sink", false),
            5 => (vec![s(StmtKind::Node(GVar::u("zq_n"))), s(StmtKind::AttrNode(GExpr::var("zq_n"), vec![GAttr { name: "k".into(), value: Some(GExpr::cap("zq_nocap")) }]))], "attribute_value", false),
            1 => (vec![let_("zq_l", GExpr::List(vec![GExpr::call("source-text", vec![GExpr::cap("zq_nocap")])]))], "nested_in_call", false),
            _ => (vec![s(StmtKind::Node(GVar::s(GExpr::cap("zq_nocap"), "v")))], "as_scope", false),
        },
        Rule::ExpectedLocal => {
            let mut pre = Vec::new();
            let (v, how) = nonlocal_value(rng, cap, &mut pre);
            let stmt_ = match rng.below(6) {
                0 => scan_(v, "a", vec![]),
                1 => if_(cond(CondKind::Bool, v), vec![]),
                2 => for_("zq_x", v, vec![]),
                3 => print_(lcomp(GExpr::var("zq_x"), "zq_x", v)),
                4 => print_(scomp(GExpr::Int(1), "zq_x", v)),
                _ => s(StmtKind::If(vec![
                    GIfArm { conds: vec![cond(CondKind::Bool, GExpr::False)], stmts: vec![], loc: Loc::default() },
                    GIfArm { conds: vec![cond(CondKind::Bool, GExpr::True), cond(CondKind::Some, v)], stmts: vec![], loc: Loc::default() },
                ])),
            };
            pre.push(stmt_);
            (pre, how, false)
        }
        Rule::ExpectedOptional => {
            let v = match rng.below(5) {
                0 => GExpr::str("s"),
                1 => GExpr::Int(1),
                2 => GExpr::List(vec![]),
                3 => GExpr::call("is-null", vec![GExpr::Null]),
                _ => GExpr::Null,
            };
            let k = if rng.chance(1, 2) { CondKind::Some } else { CondKind::None };
            if rng.chance(1, 4) {
                // not the first clause of the arm, in an elif
                (
                    vec![s(StmtKind::If(vec![
                        GIfArm { conds: vec![cond(CondKind::Bool, GExpr::False)], stmts: vec![], loc: Loc::default() },
                        GIfArm { conds: vec![cond(CondKind::Bool, GExpr::True), cond(CondKind::Bool, GExpr::call("not", vec![GExpr::False])), cond(k, v)], stmts: vec![], loc: Loc::default() },
                    ]))],
                    "third_clause_of_elif",
                    false,
                )
            } else if rng.chance(1, 3) {
                (vec![let_("zq_l", v), if_(cond(k, GExpr::var("zq_l")), vec![])], "via_let", false)
            } else {
                (vec![if_(cond(k, v), vec![])], "direct", false)
            }
        }
        Rule::ExpectedList => {
            let v = match rng.below(4) {
                0 => GExpr::str("s"),
                1 => GExpr::Int(1),
                2 => GExpr::Null,
                _ => GExpr::call("concat", vec![GExpr::List(vec![])]),
            };
            match rng.below(3) {
                0 => (vec![for_("zq_x", v, vec![])], "for", false),
                1 => (vec![print_(lcomp(GExpr::Int(1), "zq_x", v))], "list_comprehension", false),
                _ => (vec![let_("zq_l", v), print_(scomp(GExpr::Int(1), "zq_x", GExpr::var("zq_l")))], "set_comprehension_via_let", false),
            }
        }
        Rule::NullableRegex => {
            let re = *rng.pick(&["a*", "", "(b)?", "x|", "^", "\\b", "a{0,2}"]);
            let body = vec![];
            if rng.chance(1, 4) {
                // a literal subject that the nullable regex happens to cover with non-empty matches
                let (subject, re2) = *rng.pick(&[("aaa", "a*"), ("abab", "(a)?(b)?"), ("éé", "(é)?"), ("", "x*"), ("bb", "b{0,2}")]);
                (vec![scan_(GExpr::str(subject), re2, body)], "literal_subject_covered_by_non_empty_matches", false)
            } else if rng.chance(1, 2) {
                (vec![scan_(GExpr::str("abc"), re, body)], "only_arm", false)
            } else {
                (vec![s(StmtKind::Scan(GExpr::str("abc"), vec![GArm { regex: "a".into(), stmts: vec![], loc: Loc::default() }, GArm { regex: re.into(), stmts: vec![], loc: Loc::default() }]))], "second_arm", false)
            }
        }
    }
}

fn rule_of(e: &CheckError) -> (Rule, tree_sitter_graph::Location) {
    match e {
        CheckError::CannotHideGlobalVariable(_, l) => (Rule::HideGlobal, *l),
        CheckError::CannotSetGlobalVariable(_, l) => (Rule::SetGlobal, *l),
        CheckError::DuplicateGlobalVariable(_, l) => (Rule::DuplicateGlobal, *l),
        CheckError::ExpectedListValue(l) => (Rule::ExpectedList, *l),
        CheckError::ExpectedLocalValue(l) => (Rule::ExpectedLocal, *l),
        CheckError::ExpectedOptionalValue(l) => (Rule::ExpectedOptional, *l),
        CheckError::NullableRegex(_, l) => (Rule::NullableRegex, *l),
        CheckError::UndefinedSyntaxCapture(_, l) => (Rule::UndefinedCapture, *l),
        CheckError::UndefinedVariable(_, l) => (Rule::UndefinedVariable, *l),
        CheckError::UnusedCaptures(_, l) => (Rule::UnusedCapture, *l),
        CheckError::Variable(ve, _, l) => (
            match ve {
                VariableError::CannotAssignImmutableVariable(_) => Rule::AssignImmutable,
                VariableError::VariableAlreadyDefined(_) => Rule::Redefinition,
                VariableError::UndefinedVariable(_) => Rule::AssignUndefined,
            },
            *l,
        ),
    }
}

const VALID_NEIGHBOURS: &[(&str, &str)] = &[
    ("capture_used_only_in_nested_block", "(identifier) @c { if #true { for x in [1] { print @c } } }"),
    ("capture_used_only_as_scope", "(identifier) @c { node @c.n }"),
    ("loop_variable_iterated_by_a_nested_loop", "(module) { for xs in [[1, 2], [3]] { for y in xs { print y } print [ z for z in xs ] } }"),
    ("loop_variable_over_list_capture_bound_by_let_then_iterated", "(module (_)* @stmts) { for s in [@stmts] { let t = s for u in t { print u } } }"),
    ("captures_that_differ_only_in_case", "(function_definition name: (identifier) @name body: (_) @Name) { print @name, @Name }"),
    ("optional_global_with_default_tested_with_some", "global zq_o? = \"d\"\n(module) { if some zq_o { print zq_o } elif none zq_o { } }"),
    ("list_global_with_default_iterated", "global zq_l* = \"\"\n(module) { for x in zq_l { print x } print [ y for y in zq_l ] }"),
    ("optional_global_bound_by_let_then_tested", "global zq_o? = \"d\"\n(module) { let o = zq_o if some o { } }"),
    ("capture_used_only_in_later_set_literal_element", "(function_definition name: (identifier) @name) @fun { print { @fun.v, @name } }"),
    ("capture_used_only_in_later_list_literal_element", "(function_definition name: (identifier) @name) @fun { var m = 1 print [ m, @fun.v, @name ] }"),
    ("capture_used_only_as_scope_of_set_target", "(identifier) @x { var @x.v = 1 }\n(identifier) @y { set @y.v = 2 }"),
    ("capture_used_only_as_scope_of_set_target_in_loop", "(identifier) @x { var @x.v = 1 }\n(identifier) @y { for i in [1, 2] { set @y.v = i } }"),
    ("capture_used_only_as_scope_of_definition", "(identifier) @x { let @x.v = 1 }"),
    ("capture_used_only_in_edge_attribute_sink", "(identifier) @x { node @x.n }\n(identifier) @y { node m edge m -> @y.n attr (m -> @y.n) k = 1 }"),
    ("capture_used_only_in_comprehension", "(argument_list (_)* @xs) { print [ (source-text x) for x in @xs ] }"),
    ("underscore_capture_unused", "(identifier) @_c { node n }"),
    ("set_var_from_nested_block", "(module) { var v = 1 if #true { for x in [1] { set v = x } } }"),
    ("same_name_in_sibling_arms", "(module) { if #true { let v = 1 } elif #false { let v = 2 } else { let v = 3 } }"),
    ("same_name_in_sibling_scan_arms", "(module) { scan \"ab\" { \"a\" { let v = 1 } \"b\" { let v = 2 } } }"),
    ("shadowing_in_nested_block", "(module) { let v = 1 if #true { let v = 2 print v } print v }"),
    ("shadowing_loop_variable_name_after_loop", "(module) { for x in [1] { print x } let x = 2 }"),
    ("for_over_let_bound_list", "(module) { let l = [1, 2] let m = l for x in m { print x } }"),
    ("for_over_list_capture", "(argument_list (_)* @xs) { for x in @xs { print x } }"),
    ("for_over_plus_capture", "(list (_)+ @xs) { for x in @xs { print x } }"),
    ("some_on_optional_capture", "(return_statement (_)? @v) { if some @v { print @v } elif none @v { } }"),
    ("some_on_let_bound_optional_capture", "(return_statement (_)? @v) { let w = @v if none w { } else { print w } }"),
    ("condition_on_call_of_locals", "(identifier) @c { if (eq (source-text @c) \"x\") { } }"),
    ("scan_on_let_of_source_text", "(identifier) @c { let t = (source-text @c) scan t { \"a\" { print $0 } } }"),
    ("scoped_value_in_comprehension_element", "(argument_list (_)* @xs) { print [ x.v for x in @xs ] }"),
    ("mutable_used_outside_sources", "(module) { var v = 1 set v = 2 node n attr (n) a = v }"),
    ("optional_global_in_condition", "global g?\n(module) { if some g { print g } }"),
    ("list_global_in_for", "global gs*\n(module) { for g in gs { print g } }"),
    ("non_nullable_regexes", "(module) { scan \"a\" { \"a+\" { } \"\\\\bx\" { } \"b|c\" { } } }"),
    ("let_in_for_body_each_iteration", "(module) { for x in [1, 2] { let y = x } }"),
    ("shadowing_with_another_shape_list_inside", "(module (_)* @xs) { let v = 1 if #true { let v = @xs for x in v { print x } print [ y for y in v ] } }"),
    ("shadowing_with_another_shape_optional_inside", "(return_statement (_)? @r) { let v = 1 for i in [1] { let v = @r if some v { print v } } }"),
    ("shadowing_with_another_shape_local_inside", "(identifier) @id { var v = @id.scoped scan \"a\" { \"a\" { let v = \"b\" scan v { \"b\" { print $0 } } } } }"),
    ("declarations_between_and_after_stanzas", "(module) { node n }\nglobal zq_late\n(module) { print zq_late }\nattribute zq_sh = v => a = v\n(module) { node n attr (n) zq_sh = 1 }\ninherit .zq_scope\nglobal zq_last = \"d\""),
    ("same_comprehension_variable_in_sibling_set_comprehensions", "(module) { let a = { x for x in [1] } let b = { x for x in [2] } let x = 3 print a, b, x }"),
    ("same_comprehension_variable_in_sibling_list_comprehensions", "(module) { let a = [ x for x in [1] ] let b = [ x for x in [2] ] let x = 3 print a, b, x }"),
    ("variable_named_like_keyword_prefix", "(module) { let something = #true let none_left = #false if something, none_left { } }"),
];

/// shadowing where the inner binding is the one that breaks a shape rule (the outer one would not)
const INVALID_NEIGHBOURS: &[(&str, &str, &str)] = &[
    ("shadowing_inner_scalar_iterated", "(module (_)* @xs) { let v = @xs if #true { let v = 1 for x in v { print x } } }", "ExpectedListValue"),
    ("shadowing_inner_scalar_in_comprehension", "(module (_)* @xs) { let v = @xs for i in [1] { let v = 1 print [ y for y in v ] } }", "ExpectedListValue"),
    ("shadowing_inner_non_optional_tested", "(return_statement (_)? @r) { let v = @r if #true { let v = 1 if some v { } } }", "ExpectedOptionalValue"),
    ("shadowing_inner_non_local_scanned", "(identifier) @id { let v = \"a\" if #true { let v = @id.scoped scan v { \"a\" { } } } }", "ExpectedLocalValue"),
];

impl Prop for C06 {
    fn id(&self) -> &'static str {
        "C06"
    }
    fn directed(&self) -> usize {
        1
    }
    fn cases(&self, cfg: &RunCfg) -> usize {
        match cfg.tier {
            Tier::Quick => 80,
            Tier::Thorough => 6000,
        }
    }
    fn run_case(&self, _cfg: &RunCfg, idx: usize, rng: &mut Rng, out: &mut Out) {
        if idx == 0 {
            for (name, text) in VALID_NEIGHBOURS {
                out.eval();
                match exec::load(text) {
                    Loaded::Ok(_) => out.feat(&format!("valid_neighbour:{}", name)),
                    Loaded::Err(e) => out.violation("C06:valid-neighbour-rejected", &format!("{}: a rule-abiding file was rejected: {}", name, e), json!({"dsl": text})),
                    Loaded::Panic(p) => out.violation("C06:load-panic", &format!("{}: {}", p.location, p.message), json!({"dsl": text})),
                }
            }
            for (name, text, variant) in INVALID_NEIGHBOURS {
                out.eval();
                match exec::load(text) {
                    Loaded::Ok(_) => out.violation(&format!("C06:accepted:{}", variant), &format!("{}: a file that breaks the rule was accepted", name), json!({"dsl": text})),
                    Loaded::Err(e) => {
                        if format!("{:?}", e).contains(variant) {
                            out.feat(&format!("invalid_neighbour:{}", name));
                        } else {
                            out.violation(&format!("C06:wrong-rule:{}", variant), &format!("{}: rejected, but not for breaking the rule: {:?}", name, e), json!({"dsl": text}));
                        }
                    }
                    Loaded::Panic(p) => out.violation("C06:load-panic", &format!("{}: {}", p.location, p.message), json!({"dsl": text})),
                }
            }
            // the known gap: shorthand bodies are not visited by the checker
            let text = "attribute sh = v => a = zq_undefined\n(module) { node n attr (n) sh = 1 }";
            out.eval();
            match exec::load(text) {
                Loaded::Ok(_) => out.violation("C06:shorthand-body-not-checked", "an undefined variable inside an attribute shorthand body is accepted at load time", json!({"dsl": text})),
                Loaded::Err(_) => out.feat("shorthand_body_checked"),
                Loaded::Panic(p) => out.violation("C06:load-panic", &format!("{}: {}", p.location, p.message), json!({"dsl": text})),
            }
            return;
        }
        // base program: valid by construction
        let mut cfg = GenCfg::strict_full();
        cfg.fault_pct = 0;
        cfg.max_stanzas = 4;
        cfg.ast_mutation_pct = 0;
        let prog = gen_program(rng, &cfg);
        let mut base = prog.file.clone();
        base.number();
        let wild = rng.chance(1, 3);
        let text = if wild { print_wild(&mut base, rng).0 } else { print_house(&mut base) };
        let caps = match captures_only(&base) {
            Ok(c) => c,
            Err(e) => {
                out.inconclusive(&format!("oracle could not compile a pool query: {}", e));
                return;
            }
        };
        let model = Checker::check(&base, &caps);
        out.eval();
        match exec::load(&text) {
            Loaded::Ok(_) => {
                if !model.is_empty() {
                    out.inconclusive(&format!("harness: generator produced a program the model checker rejects ({})", model[0].rule.name()));
                    return;
                }
                out.feat("valid_program_accepted");
                out.nontrivial(hash_str(&text));
            }
            Loaded::Err(e) => {
                if model.is_empty() {
                    out.violation("C06:valid-program-rejected", &format!("a rule-abiding generated file was rejected: {}", e), json!({"dsl": text}));
                } else {
                    out.inconclusive("harness: generator produced an invalid program");
                }
                return;
            }
            Loaded::Panic(p) => {
                out.violation("C06:load-panic", &format!("{}: {}", p.location, p.message), json!({"dsl": text}));
                return;
            }
        }
        // fault enumeration: every block x every rule
        let blocks = list_blocks(&base);
        for (bi, (si, depth, kind)) in blocks.iter().enumerate() {
            let stanza_pool = base.stanzas()[*si].pool;
            let cap = stanza_pool.and_then(|p| POOL[p].caps.first().map(|c| c.name)).unwrap_or("nocap");
            for rule in RULES {
                // file-level rules do not depend on the block: do them for the first block only
                if matches!(rule, Rule::DuplicateGlobal | Rule::UnusedCapture) && bi != 0 {
                    continue;
                }
                let mut f = base.clone();
                let (mut stmts, variant, needs_global) = violation(*rule, rng, cap);
                if wild && !stmts.is_empty() && rng.chance(1, 2) {
                    // multi-byte text right before the offending construct (often on the same line)
                    stmts.insert(0, print_(GExpr::str("ünï 😀 日本")));
                } else if wild && !stmts.is_empty() && rng.chance(1, 2) {
                    // a string with line feeds and tabs before it: random layouts write half of
                    // these literally, so the literal spans three lines
                    stmts.insert(0, print_(GExpr::str("first line\nsecond\tline\nthird")));
                }
                if needs_global {
                    let at = rng.below(f.items.len() + 1);
                    f.items.insert(at, Item::Global(GGlobal { name: "zq_global".into(), quant: Quant::One, default: None, loc: Loc::default() }));
                    if *rule == Rule::DuplicateGlobal {
                        let at2 = rng.below(f.items.len() + 1);
                        f.items.insert(at2, Item::Global(GGlobal { name: "zq_global".into(), quant: *rng.pick(&[Quant::One, Quant::Star]), default: None, loc: Loc::default() }));
                    }
                }
                if *rule == Rule::UnusedCapture {
                    if rng.chance(1, 2) {
                        // a capture name that an EARLIER stanza uses, unused in a copy of that
                        // stanza's query placed after it
                        let sts = f.stanzas();
                        let k = rng.below(sts.len());
                        let q = sts[k].query.clone();
                        let pos = f.items.iter().enumerate().filter(|(_, it)| matches!(it, Item::Stanza(_))).nth(k).map(|(i, _)| i).unwrap_or(0);
                        let at = rng.range(pos + 1, f.items.len());
                        f.items.insert(at, Item::Stanza(GStanza { query: q, pool: None, stmts: vec![s(StmtKind::Node(GVar::u("zq_n")))], loc: Loc::default() }));
                    } else {
                        let q = *rng.pick(&["(identifier) @zq_unused", "(call function: (_) @zq_f arguments: (_) @zq_unused)", "(identifier) @zq_unused @_fine"]);
                        let mut body = vec![s(StmtKind::Node(GVar::u("zq_n")))];
                        if q.contains("@zq_f") {
                            body.push(print_(GExpr::cap("zq_f")));
                        }
                        let at = rng.below(f.items.len() + 1);
                        f.items.insert(at, Item::Stanza(GStanza { query: q.into(), pool: None, stmts: body, loc: Loc::default() }));
                    }
                } else if !stmts.is_empty() {
                    let n = stmts.len();
                    let mut stmts = Some(stmts);
                    let pos_seed = rng.below(1000);
                    with_block(&mut f, bi, &mut |b: &mut Vec<GStmt>| {
                        let pos = pos_seed % (b.len() + 1);
                        for (k, x) in stmts.take().unwrap_or_default().into_iter().enumerate() {
                            b.insert(pos + k, x);
                        }
                    });
                    let _ = n;
                }
                f.number();
                let ftext = if wild { print_wild(&mut f, rng).0 } else { print_house(&mut f) };
                let fcaps = match captures_only(&f) {
                    Ok(c) => c,
                    Err(_) => continue,
                };
                let expected = Checker::check(&f, &fcaps);
                if expected.len() != 1 {
                    out.feat(if expected.is_empty() { "skipped:injection_not_a_violation" } else { "skipped:several_violations" });
                    continue;
                }
                let want = &expected[0];
                if want.rule != *rule {
                    out.feat("skipped:injection_broke_another_rule");
                    continue;
                }
                out.eval();
                let case = || json!({"dsl": ftext, "injected_rule": rule.name(), "variant": variant, "block": kind.name(), "depth": depth, "expected_locations": want.locs.iter().map(|l| json!([l.row, l.col])).collect::<Vec<_>>()});
                match exec::load(&ftext) {
                    Loaded::Ok(_) => {
                        out.violation(&format!("C06:accepted:{}", rule.name()), &format!("a file breaking rule {} ({} in {} block at depth {}) was accepted", rule.name(), variant, kind.name(), depth), case());
                        return;
                    }
                    Loaded::Panic(p) => {
                        out.violation("C06:load-panic", &format!("{}: {}", p.location, p.message), case());
                        return;
                    }
                    Loaded::Err(ref pe @ ParseError::Check(ref ce)) => {
                        let (got_rule, loc) = rule_of(ce);
                        if got_rule != *rule {
                            out.violation(&format!("C06:wrong-rule:{}", rule.name()), &format!("broke {} ({}), reported as {}: {}", rule.name(), variant, got_rule.name(), ce), case());
                            return;
                        }
                        if !want.locs.iter().any(|l| l.row == loc.row && l.col == loc.column) {
                            out.violation(&format!("C06:wrong-location:{}", rule.name()), &format!("{} ({}) reported at ({}, {}), the offending construct is at {:?}", rule.name(), variant, loc.row, loc.column, want.locs), case());
                            return;
                        }
                        // the rendered report cites the same place (1-based line and character column)
                        let rendered = crate::util::catch(|| format!("{}", pe.display_pretty(std::path::Path::new("rules.tsg"), &ftext)));
                        match rendered {
                            Err(p) => {
                                out.violation("C06:render-panic", &format!("{}: {}", p.location, p.message), case());
                                return;
                            }
                            Ok(r) => {
                                let header = format!("rules.tsg:{}:{}:", loc.row + 1, loc.column + 1);
                                if !r.contains(&header) {
                                    out.violation(&format!("C06:rendered-location-differs:{}", rule.name()), &format!("{} reported at ({}, {}) but the pretty report does not cite {}: {}", rule.name(), loc.row, loc.column, header, crate::util::trunc(&r, 400)), case());
                                    return;
                                }
                                if ftext.lines().nth(loc.row).map(|l| l.chars().take(loc.column).any(|c| !c.is_ascii())).unwrap_or(false) {
                                    out.feat("rendered_location_after_non_ascii_text");
                                }
                            }
                        }
                        out.feat(&format!("rejected:{}", rule.name()));
                        out.feat(&format!("rejected_in:{}@{}", kind.name(), (*depth).min(4)));
                        out.feat(&format!("variant:{}:{}", rule.name(), variant));
                        out.nontrivial(hash_str(&ftext));
                        if out.want_sample() && *depth >= 1 {
                            out.sample(case());
                        }
                    }
                    Loaded::Err(other) => {
                        out.violation("C06:parse-error-instead", &format!("broke {} ({}), got a syntax error: {}", rule.name(), variant, other), case());
                        return;
                    }
                }
            }
        }
        if wild {
            out.feat("layout:wild");
        }
    }
}
