//! tsgmon: runtime monitors for tree-sitter-graph (one workload + oracle module per property).
//!
//!   tsgmon run <PROP> --tier quick|thorough --seed N --shard I --nshards N --out FILE
//!              [--start IDX] [--cases K] [--budget SECONDS] [--replays DIR]
//!   tsgmon replay <FILE>
//!   tsgmon list

mod gen;
mod model;
mod oracle;
mod props;
mod util;

use std::sync::atomic::{AtomicU64, Ordering};
use std::time::Instant;
use util::{mix, Out, Rng};

#[derive(Clone, Copy, PartialEq, Eq, Debug)]
pub enum Tier {
    Quick,
    Thorough,
}

pub struct RunCfg {
    pub tier: Tier,
    pub seed: u64,
    pub shard: usize,
    pub nshards: usize,
}

/// One property = a deterministic case generator plus an oracle.
pub trait Prop {
    fn id(&self) -> &'static str;
    /// number of directed (seed independent) cases run first in every shard
    fn directed(&self) -> usize {
        0
    }
    /// number of random cases per shard for a tier
    fn cases(&self, cfg: &RunCfg) -> usize;
    /// run case `idx` (idx < directed() => directed case)
    fn run_case(&self, cfg: &RunCfg, idx: usize, rng: &mut Rng, out: &mut Out);
    /// called once per shard after all cases (for shard-level evidence)
    fn finish(&self, _cfg: &RunCfg, _out: &mut Out) {}
}

static CASE_IDX: AtomicU64 = AtomicU64::new(u64::MAX);
static CASE_CPU_START_MS: AtomicU64 = AtomicU64::new(0);
static CASE_WALL_START_MS: AtomicU64 = AtomicU64::new(0);

fn arg_val(args: &[String], name: &str) -> Option<String> {
    args.iter()
        .position(|a| a == name)
        .and_then(|i| args.get(i + 1).cloned())
}

pub fn case_seed(seed: u64, prop: &str, shard: usize, idx: usize) -> u64 {
    mix(&[seed, util::hash_str(prop), shard as u64, idx as u64])
}

fn main() {
    let args: Vec<String> = std::env::args().collect();
    if args.len() < 2 {
        eprintln!("usage: tsgmon run|replay|list ...");
        std::process::exit(64);
    }
    util::install_panic_hook();
    match args[1].as_str() {
        "list" => {
            for p in props::all() {
                println!("{}", p.id());
            }
        }
        "run" => run(&args),
        "load-probe" => {
            // load a DSL file read from stdin (in a process of its own, so that a hang can be
            // observed and attributed from the outside)
            let mut t = String::new();
            use std::io::Read;
            let _ = std::io::stdin().read_to_string(&mut t);
            let r = tree_sitter_graph::ast::File::from_str(oracle::tree::python(), &t);
            println!("{}", if r.is_ok() { "ok" } else { "error" });
        }
        "exec-probe" => {
            // tsgmon exec-probe <dsl file> <source file> <strict|lazy>: load and execute in a process
            // of its own (hangs and runaway allocation can then be observed from the outside)
            // (`exec-probe - <strict|lazy>` reads {"dsl": .., "source": ..} from stdin instead)
            let (dsl, source, lazy) = if args.get(2).map(|s| s == "-").unwrap_or(false) {
                let mut t = String::new();
                use std::io::Read;
                let _ = std::io::stdin().read_to_string(&mut t);
                let v: serde_json::Value = serde_json::from_str(&t).unwrap_or(serde_json::Value::Null);
                (v["dsl"].as_str().unwrap_or("").to_string(), v["source"].as_str().unwrap_or("").to_string(), args.get(3).map(|s| s == "lazy").unwrap_or(false))
            } else {
                (
                    std::fs::read_to_string(args.get(2).cloned().unwrap_or_default()).unwrap_or_default(),
                    std::fs::read_to_string(args.get(3).cloned().unwrap_or_default()).unwrap_or_default(),
                    args.get(4).map(|s| s == "lazy").unwrap_or(false),
                )
            };
            match tree_sitter_graph::ast::File::from_str(oracle::tree::python(), &dsl) {
                Err(e) => println!("load error: {}", e),
                Ok(file) => {
                    println!("loaded");
                    let tree = oracle::tree::parse_python(&source);
                    let functions = tree_sitter_graph::functions::Functions::stdlib();
                    // every declared global is bound (a list for `*` / `+`), so that the run gets
                    // as far as matching the queries
                    let mut vars = tree_sitter_graph::Variables::new();
                    for g in &file.globals {
                        let v = match g.quantifier {
                            tree_sitter::CaptureQuantifier::ZeroOrMore | tree_sitter::CaptureQuantifier::OneOrMore => tree_sitter_graph::graph::Value::List(vec!["probe".to_string().into()]),
                            _ => tree_sitter_graph::graph::Value::String("probe".to_string()),
                        };
                        let _ = vars.add(g.name.clone(), v);
                    }
                    let config = tree_sitter_graph::ExecutionConfig::new(&functions, &vars).lazy(lazy);
                    match file.execute(&tree, &source, &config, &tree_sitter_graph::NoCancellation) {
                        Ok(g) => println!("graph with {} nodes", g.node_count()),
                        Err(e) => println!("execution error: {}", e),
                    }
                }
            }
        }
        "query-probe" => {
            // compile a query read from stdin with plain tree-sitter (used to attribute hangs of
            // tree-sitter's own query compiler)
            let mut q = String::new();
            use std::io::Read;
            let _ = std::io::stdin().read_to_string(&mut q);
            let r = tree_sitter::Query::new(&oracle::tree::python(), &q);
            println!("{}", if r.is_ok() { "ok" } else { "error" });
        }
        "c12-transcript" => {
            let seed: u64 = args.get(2).and_then(|s| s.parse().ok()).unwrap_or(0);
            let cases: usize = args.get(3).and_then(|s| s.parse().ok()).unwrap_or(100);
            props::c12::print_transcript_hashes(seed, cases);
        }
        "c12-case" => {
            let seed: u64 = args.get(2).and_then(|s| s.parse().ok()).unwrap_or(0);
            let idx: usize = args.get(3).and_then(|s| s.parse().ok()).unwrap_or(0);
            props::c12::print_transcript_case(seed, idx);
        }
        "replay" => replay(&args),
        other => {
            eprintln!("unknown command {}", other);
            std::process::exit(64);
        }
    }
}

fn find_prop(id: &str) -> Box<dyn Prop> {
    for p in props::all() {
        if p.id() == id {
            return p;
        }
    }
    eprintln!("unknown property {}", id);
    std::process::exit(64);
}

fn run(args: &[String]) {
    let prop_id = args.get(2).cloned().unwrap_or_default();
    let prop = find_prop(&prop_id);
    let tier = match arg_val(args, "--tier").as_deref() {
        Some("thorough") => Tier::Thorough,
        _ => Tier::Quick,
    };
    let seed: u64 = arg_val(args, "--seed")
        .and_then(|s| s.parse().ok())
        .unwrap_or(0);
    let shard: usize = arg_val(args, "--shard")
        .and_then(|s| s.parse().ok())
        .unwrap_or(0);
    let nshards: usize = arg_val(args, "--nshards")
        .and_then(|s| s.parse().ok())
        .unwrap_or(1);
    let out_path = arg_val(args, "--out").unwrap_or_else(|| "/dev/stdout".into());
    let start: usize = arg_val(args, "--start")
        .and_then(|s| s.parse().ok())
        .unwrap_or(0);
    let budget: f64 = arg_val(args, "--budget")
        .and_then(|s| s.parse().ok())
        .unwrap_or(1e9);
    let replays = arg_val(args, "--replays").unwrap_or_else(|| "/verif/replays".into());
    let case_cpu_limit: f64 = arg_val(args, "--case-cpu")
        .and_then(|s| s.parse().ok())
        .unwrap_or(30.0);
    let cfg = RunCfg {
        tier,
        seed,
        shard,
        nshards,
    };
    let tier_s = if tier == Tier::Quick { "quick" } else { "thorough" };
    let mut out = Out::new(&prop_id, tier_s, seed, shard, &replays);
    let directed = prop.directed();
    let total = directed
        + arg_val(args, "--cases")
            .and_then(|s| s.parse().ok())
            .unwrap_or_else(|| prop.cases(&cfg));
    let wal = format!("{}.wal", out_path);

    // watchdog: a case that burns more than `case_cpu_limit` CPU seconds is reported as a hang
    // (the driver turns that into a violation for the WAL case); wall clock only => inconclusive.
    if !cfg!(miri) {
        let hang_path = format!("{}.hang", out_path);
        std::thread::spawn(move || loop {
            std::thread::sleep(std::time::Duration::from_millis(200));
            let idx = CASE_IDX.load(Ordering::SeqCst);
            if idx == u64::MAX {
                continue;
            }
            let cpu_now = (util::cpu_seconds() * 1000.0) as u64;
            let cpu0 = CASE_CPU_START_MS.load(Ordering::SeqCst);
            let used = cpu_now.saturating_sub(cpu0) as f64 / 1000.0;
            if used > case_cpu_limit && CASE_IDX.load(Ordering::SeqCst) == idx {
                let _ = std::fs::write(&hang_path, format!("{} cpu {:.1}", idx, used));
                std::process::exit(97);
            }
        });
    }

    let t0 = Instant::now();
    let mut last_ckpt = Instant::now();
    let mut idx = start;
    while idx < total {
        if idx >= directed && t0.elapsed().as_secs_f64() > budget {
            out.feat("stopped_on_time_budget");
            break;
        }
        out.cur_idx = idx as u64;
        let _ = std::fs::write(&wal, format!("{}", idx));
        CASE_CPU_START_MS.store((util::cpu_seconds() * 1000.0) as u64, Ordering::SeqCst);
        CASE_WALL_START_MS.store(t0.elapsed().as_millis() as u64, Ordering::SeqCst);
        CASE_IDX.store(idx as u64, Ordering::SeqCst);
        let mut rng = Rng::new(case_seed(seed, &prop_id, shard, idx));
        let r = util::catch(|| prop.run_case(&cfg, idx, &mut rng, &mut out));
        CASE_IDX.store(u64::MAX, Ordering::SeqCst);
        if let Err(p) = r {
            // a panic that escaped the per-call capture is a harness defect, never a verdict
            out.inconclusive(&format!(
                "harness_panic:{}:{}",
                p.location,
                util::trunc(&p.message, 120)
            ));
        }
        idx += 1;
        if last_ckpt.elapsed().as_secs_f64() > 2.0 {
            out.write(&out_path, false);
            last_ckpt = Instant::now();
        }
    }
    out.cur_idx = idx as u64;
    let r = util::catch(|| prop.finish(&cfg, &mut out));
    if let Err(p) = r {
        out.inconclusive(&format!("harness_panic_finish:{}:{}", p.location, p.message));
    }
    out.write(&out_path, true);
    let _ = std::fs::remove_file(&wal);
}

fn replay(args: &[String]) {
    let path = args.get(2).cloned().unwrap_or_default();
    let text = match std::fs::read_to_string(&path) {
        Ok(t) => t,
        Err(e) => {
            eprintln!("cannot read {}: {}", path, e);
            std::process::exit(64);
        }
    };
    let doc: serde_json::Value = serde_json::from_str(&text).expect("replay file is not JSON");
    let prop_id = doc["property"].as_str().unwrap_or("").to_string();
    let prop = find_prop(&prop_id);
    let tier = if doc["tier"] == "thorough" {
        Tier::Thorough
    } else {
        Tier::Quick
    };
    let seed = doc["seed"].as_u64().unwrap_or(0);
    let shard = doc["shard"].as_u64().unwrap_or(0) as usize;
    let idx = doc["index"].as_u64().unwrap_or(0) as usize;
    let cfg = RunCfg {
        tier,
        seed,
        shard,
        nshards: 1,
    };
    let tier_s = if tier == Tier::Quick { "quick" } else { "thorough" };
    let mut out = Out::new(&prop_id, tier_s, seed, shard, "/tmp");
    out.quiet_replay = true;
    out.cur_idx = idx as u64;
    let mut rng = Rng::new(case_seed(seed, &prop_id, shard, idx));
    let r = util::catch(|| prop.run_case(&cfg, idx, &mut rng, &mut out));
    if let Err(p) = r {
        println!("HARNESS-PANIC {} {}", p.location, p.message);
        std::process::exit(2);
    }
    println!(
        "replayed property={} seed={} shard={} index={} evaluations={}",
        prop_id, seed, shard, idx, out.evaluations
    );
    if out.violations.is_empty() {
        println!("no violation on replay");
        std::process::exit(0);
    }
    for v in &out.violations {
        println!(
            "VIOLATION property={} replay={} signature={} :: {}",
            prop_id,
            path,
            v["signature"].as_str().unwrap_or(""),
            v["message"].as_str().unwrap_or("")
        );
    }
    std::process::exit(1);
}
