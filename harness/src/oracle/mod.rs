pub mod iso;
pub mod matches;
pub mod observe;
pub mod tree;
pub mod exec;
