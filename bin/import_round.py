#!/usr/bin/env python3
"""copy sub-agent outputs <wtroot>/<id>/out/{mutant<i>.diff,demo<i>.*,meta<i>.json} into /verif/seeded/<id>-m<i>/
   usage: import_round.py <wtroot> <i,i,...> <id>..."""
import sys, os, glob, shutil, json
root=sys.argv[1]; idxs=sys.argv[2].split(','); ids=sys.argv[3:]
for pid in ids:
    for i in idxs:
        src='%s/%s/out' % (root,pid); d='/verif/seeded/%s-m%s' % (pid,i)
        if not os.path.exists('%s/mutant%s.diff' % (src,i)):
            print('missing', pid, i); continue
        os.makedirs(d, exist_ok=True)
        shutil.copy('%s/mutant%s.diff' % (src,i), d+'/patch.diff')
        for f in glob.glob('%s/demo%s.*' % (src,i)): shutil.copy(f, d)
        am={}
        if os.path.exists('%s/meta%s.json' % (src,i)):
            shutil.copy('%s/meta%s.json' % (src,i), d+'/agent_meta.json')
            try: am=json.load(open(d+'/agent_meta.json'))
            except Exception: am={}
        if not os.path.exists(d+'/meta.json'):
            json.dump({"property":pid,"kind":"seeded by an independent sub-agent (given only the property text, a scratch worktree and one-line summaries of the earlier seeded changes)","summary":am.get('summary'),"needs":am.get('needs'),"files":am.get('files'),
                "ran":"bin/confirm_mutants.py in a scratch worktree: demo passes on HEAD; with patch.diff applied the crate builds, the 162+1 existing tests pass and the demo fails","also_check":[]},open(d+'/meta.json','w'),indent=1)
        print('imported', d)
