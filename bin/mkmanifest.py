#!/usr/bin/env python3
"""Regenerate MANIFEST.json from props_meta.json (single source of truth for the checks)."""
import json, subprocess
V='/verif'
meta=json.load(open(V+'/props_meta.json'))
props=[json.loads(l)['id'] for l in open(V+'/properties.jsonl')]
hook_commits=[l.split()[0] for l in subprocess.run(['git','-C','/repo','log','--format=%h %s'],capture_output=True,text=True).stdout.splitlines() if l.split(' ',1)[1].startswith('verif-hooks')]
checks=[]; na=[]
for p in props:
    m=meta.get(p)
    if not m or m.get('unclaimed'):
        na.append({"property_id":p,"reason":(m or {}).get('unclaimed',"check not built yet (work in progress); the technique applies, see DESIGN.md")})
        continue
    c={"property_id":p,"quick_cmd":"bin/check %s quick"%p,"thorough_cmd":"bin/check %s thorough"%p,
       "evidence_file":"evidence/%s.json"%p,"replay_cmd_template":"bin/check replay {path}","engine":"tsgmon",
       "level_claimed":{"category":m['level'],"text":m['level_text'],"design_ref":"DESIGN.md §3 "+p},
       "level_note":m['level_note'],"technique":m['technique']}
    checks.append(c)
man={"version":1,"setup_cmd":"bin/check setup",
 "hooks":{"guard":"cargo feature verif-hooks (off by default)","enable":"the harness crate depends on /repo by path with features = [\"verif-hooks\"]; bin/check rebuilds it from /repo's working tree on every run",
          "baseline_off_cmd":"cd /repo && cargo test --workspace --no-fail-fast --offline","source_commits":hook_commits,"add_only":True},
 "engines":[{"name":"tsgmon","path":"harness","serves_properties":[c['property_id'] for c in checks],
   "kind_free_text":"Rust harness (generators, reference model, oracles, one monitor module per property) driven by bin/check, which shards over all cores, isolates crashes through a write-ahead log, merges shard results and writes evidence"}],
 "checks":checks,"not_applicable":na,
 "notes":"Every check is runtime monitoring of the real library/CLI on generated workloads; verdicts are three-valued (exit 0 held / 1 violation / 2 inconclusive). See DESIGN.md."}
json.dump(man,open(V+'/MANIFEST.json','w'),indent=1)
print("checks:",len(checks),"unclaimed:",len(na))
