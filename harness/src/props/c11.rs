//! C11 – cancellation at any poll stops execution and surfaces as Cancelled.
//! Fault enumeration over cancellation points: for every k from 1 to the number of polls of
//! the uncancelled run the flag fails from poll k on (exhaustive up to 1500 polls).

use super::common::*;
use crate::gen::dsl::GenCfg;
use crate::model::interp::Outcome;
use crate::model::value::OGraph;
use crate::oracle::exec::{self, analyse_error, CountingFlag, Loaded};
use crate::oracle::observe::observe_graph;
use crate::oracle::tree::{parse_python, TreeInfo};
use crate::util::{catch, Out, Rng};
use crate::{Prop, RunCfg, Tier};
use serde_json::json;
use std::collections::BTreeMap;
use tree_sitter_graph::graph::Graph;
use tree_sitter_graph::{ExecutionConfig, ExecutionError, NoCancellation};

pub struct C11;

/// A function the embedder registers: returns its argument, and is itself a cancellation point
/// (it polls the flag of the execution and passes the signal on with `?`).
struct PollingIdentity(std::sync::Arc<CountingFlag>);

impl tree_sitter_graph::functions::Function for PollingIdentity {
    fn call(&self, _graph: &mut Graph, _source: &str, parameters: &mut dyn tree_sitter_graph::functions::Parameters) -> Result<tree_sitter_graph::graph::Value, ExecutionError> {
        let v = parameters.param()?;
        parameters.finish()?;
        tree_sitter_graph::CancellationFlag::check(&*self.0, "host function")?;
        Ok(v)
    }
}

const HOST_PROGRAMS: &[&str] = &[
    "(identifier) @id { node n attr (n) a = (zq-poll (source-text @id)) let v = (zq-poll 1) if (zq-poll #true) { attr (n) b = (zq-poll v) } scan (zq-poll \"ab\") { \"a\" { print (zq-poll $0) } \"b\" { } } for x in [(zq-poll 1), 2] { print (zq-poll x) } }",
    "(module) @m { node @m.top attr (@m.top) k = (zq-poll \"top\") }\n(identifier) @id { let @id.up = (zq-poll (node)) node n edge n -> (zq-poll @id.up) attr (n -> @id.up) w = (zq-poll (plus 1 (zq-poll 2))) }",
    "(identifier) @id { let xs = [ (zq-poll y) for y in [1, 2, (start-row @id)] ] node n attr (n) xs = xs, s = { (zq-poll z) for z in xs } print (zq-poll xs) }",
];

/// programs whose expressions call a host function that polls the execution's own flag: a
/// signal raised inside the function is the cancellation error of the run like any other
fn host_function_family(rng: &mut Rng, out: &mut Out) {
    let text = (*rng.pick(HOST_PROGRAMS)).to_string();
    let source = crate::gen::py::gen_any_source(rng, 3, 10);
    let tree = parse_python(&source);
    let ti = TreeInfo::new(&tree);
    let file = match exec::load(&text) {
        Loaded::Ok(f) => f,
        _ => {
            out.violation("C11:host-function-program-rejected", "a hand-written program was rejected at load time", json!({"dsl": text}));
            return;
        }
    };
    let no_globals = BTreeMap::new();
    let vars = exec::make_globals(&no_globals, &|_| None);
    for lazy in [false, true] {
        let mode = if lazy { "lazy" } else { "strict" };
        let run = |k: u64| {
            let flag = std::sync::Arc::new(CountingFlag::new(k));
            let mut functions = stdlib();
            functions.add(tree_sitter_graph::Identifier::from("zq-poll"), PollingIdentity(flag.clone()));
            let r = catch(|| {
                let config = ExecutionConfig::new(&functions, &vars).lazy(lazy);
                let mut g = Graph::new();
                let r = file.execute_into(&mut g, &tree, &source, &config, &*flag);
                let _ = observe_graph(&g, &ti);
                r
            });
            (r, flag)
        };
        let (r, never) = run(u64::MAX);
        out.eval();
        let cj = |k: u64| json!({"dsl": text, "source": source, "mode": mode, "cancel_at_poll": k, "host_function": "zq-poll returns its argument after polling the execution's flag"});
        match r {
            Ok(Ok(())) => {}
            Ok(Err(e)) => {
                out.violation(&format!("C11:host-function-program-failed:{}", mode), &format!("uncancelled run failed: {}", e), cj(0));
                return;
            }
            Err(p) => {
                out.violation(&format!("C11:panic:{}", mode), &format!("{}: {}", p.location, p.message), cj(0));
                return;
            }
        }
        let total = never.count();
        let inside = never.labels.lock().unwrap().get("host function").copied().unwrap_or(0);
        if inside == 0 && ti.nodes.iter().any(|n| n.kind == "identifier") {
            out.inconclusive("host function never polled");
        }
        let ks: Vec<u64> = if total <= 600 { (1..=total).collect() } else { (1..=600).map(|i| 1 + (i * total / 601)).collect() };
        for k in ks {
            let (r, flag) = run(k);
            out.eval();
            let res = match r {
                Ok(x) => x,
                Err(p) => {
                    out.violation(&format!("C11:panic:{}", mode), &format!("cancelling at poll {}: panic at {}: {}", k, p.location, p.message), cj(k));
                    return;
                }
            };
            match &res {
                Ok(()) => {
                    out.violation(&format!("C11:cancellation-ignored:{}", mode), &format!("the flag signalled at poll {} of {} but execution returned success", k, total), cj(k));
                    return;
                }
                Err(ExecutionError::Cancelled(c)) => {
                    if format!("{}", c).contains("host function") {
                        out.feat(&format!("cancelled_inside_a_host_function:{}", mode));
                    }
                }
                Err(e) => {
                    let info = analyse_error(e);
                    let sig = if info.cancelled_anywhere { "cancelled-wrapped" } else { "other-error" };
                    out.violation(&format!("C11:{}:{}", sig, mode), &format!("cancelling at poll {} of {} (polls made by a host function included) returned {}", k, total, crate::util::trunc(&info.display, 300)), cj(k));
                    return;
                }
            }
            if flag.polls_after_fail.load(std::sync::atomic::Ordering::SeqCst) > 0 || flag.count() != k {
                out.violation(&format!("C11:polls-after-cancellation:{}", mode), &format!("the flag failed at poll {} and was polled {} more times", k, flag.count().saturating_sub(k)), cj(k));
                return;
            }
        }
        out.feat_n(&format!("cancellation_points_with_host_function:{}", mode), total);
    }
    out.nontrivial(crate::util::mix(&[crate::util::hash_str(&text), crate::util::hash_str(&source)]));
}

/// is `a` a prefix of `b`: nodes in creation order, attributes and edges subsets
fn is_prefix(a: &OGraph, b: &OGraph) -> Result<(), String> {
    if a.nodes.len() > b.nodes.len() {
        return Err(format!("{} nodes vs {} later", a.nodes.len(), b.nodes.len()));
    }
    for (i, n) in a.nodes.iter().enumerate() {
        let m = &b.nodes[i];
        for (k, v) in &n.attrs {
            if m.attrs.get(k) != Some(v) {
                return Err(format!("node {} attribute {} = {:?} is not in the later graph ({:?})", i, k, v, m.attrs.get(k)));
            }
        }
        for (s, ea) in &n.edges {
            match m.edges.get(s) {
                None => return Err(format!("edge {} -> {} is not in the later graph", i, s)),
                Some(eb) => {
                    for (k, v) in ea {
                        if eb.get(k) != Some(v) {
                            return Err(format!("edge {} -> {} attribute {} differs", i, s, k));
                        }
                    }
                }
            }
        }
    }
    Ok(())
}

impl Prop for C11 {
    fn id(&self) -> &'static str {
        "C11"
    }
    fn cases(&self, cfg: &RunCfg) -> usize {
        match cfg.tier {
            Tier::Quick => 60,
            Tier::Thorough => 3000,
        }
    }
    fn run_case(&self, _cfg: &RunCfg, idx: usize, rng: &mut Rng, out: &mut Out) {
        if idx % 6 == 5 {
            host_function_family(rng, out);
            return;
        }
        let mut gcfg = GenCfg::order_insensitive();
        gcfg.max_stanzas = 4;
        gcfg.max_stmts = 5;
        gcfg.fault_pct = 15;
        // `print` arguments are evaluated (and polled) like any other expression
        gcfg.print = rng.chance(1, 2);
        gcfg.scan_bias = 2;
        let mut case = build_case(rng, &gcfg, 10, 10, 6);
        if rng.chance(1, 4) {
            // a stanza with an empty body still has its matches processed (and polled)
            use crate::gen::ast::*;
            let q = *rng.pick(&["(identifier)", "(module)", "(expression_statement)", "(call)"]);
            let at = rng.below(case.prog.file.items.len() + 1);
            case.prog.file.items.insert(at, Item::Stanza(GStanza { query: q.into(), pool: None, stmts: vec![], loc: Loc::default() }));
            case.prog.file.number();
            case.text = crate::gen::print::print_house(&mut case.prog.file);
            out.feat("program_with_an_empty_stanza");
        }
        let tree = parse_python(&case.source);
        let ti = TreeInfo::new(&tree);
        if ti.anomaly.is_some() {
            out.inconclusive("tree-sitter anomaly");
            return;
        }
        let prep = match prepare(&case.prog.file, &tree, &case.source, &ti) {
            Ok(p) => p,
            Err(e) => {
                out.inconclusive(&format!("oracle could not compile a pool query: {}", e));
                return;
            }
        };
        if prep.rootless > 0 || prep.shape_anomalies > 0 {
            out.inconclusive("match without root node / capture shape anomaly");
            return;
        }
        let file = match exec::load(&case.text) {
            Loaded::Ok(f) => f,
            _ => {
                out.feat("load_rejected");
                return;
            }
        };
        let model = run_model(&case.prog.file, &ti, &case.source, &case.prog.globals, &prep.matches, None).ok();
        let functions = stdlib();
        let vars = exec::make_globals(&case.prog.globals, &|_| None);
        let cj = || case_json(&case.text, &case.source, &case.prog.globals);
        for lazy in [false, true] {
            let mode = if lazy { "lazy" } else { "strict" };
            // reference runs: NoCancellation and a flag that never fires
            let plain = catch(|| {
                let config = ExecutionConfig::new(&functions, &vars).lazy(lazy);
                let mut g = Graph::new();
                let r = file.execute_into(&mut g, &tree, &case.source, &config, &NoCancellation);
                (r.map_err(|e| format!("{}", e)), observe_graph(&g, &ti))
            });
            let never = CountingFlag::new(u64::MAX);
            let counted_started = std::time::Instant::now();
            let counted = catch(|| {
                let config = ExecutionConfig::new(&functions, &vars).lazy(lazy);
                let mut g = Graph::new();
                let r = file.execute_into(&mut g, &tree, &case.source, &config, &never);
                (r.map_err(|e| format!("{}", e)), observe_graph(&g, &ti))
            });
            let full_run_seconds = counted_started.elapsed().as_secs_f64();
            out.evals(2);
            let (plain, counted) = match (plain, counted) {
                (Ok(a), Ok(b)) => (a, b),
                (Err(p), _) | (_, Err(p)) => {
                    out.violation(&format!("C11:panic:{}", mode), &format!("{}: {}", p.location, p.message), cj());
                    return;
                }
            };
            let (full_graph, plain_graph) = match (&counted.1, &plain.1) {
                (Ok(a), Ok(b)) => (a.clone(), b.clone()),
                _ => {
                    out.violation("C11:unreadable-graph", "graph could not be read back", cj());
                    return;
                }
            };
            if plain.0 != counted.0 || full_graph != plain_graph {
                out.violation(&format!("C11:never-firing-flag-changes-result:{}", mode), &format!("NoCancellation gives {:?}, a flag that never signals gives {:?}", plain.0.as_ref().err(), counted.0.as_ref().err()), cj());
                return;
            }
            let total = never.count();
            let labels = never.labels.lock().unwrap().clone();
            for (l, n) in &labels {
                out.feat_n(&format!("polls:{}:{}", mode, l), *n);
            }
            // poll adequacy against the model's counters (complete successful runs only)
            if let (Some((Outcome::Graph(_), c)), Ok(())) = (&model, &counted.0) {
                let get = |l: &str| labels.get(l).copied().unwrap_or(0);
                let mut lacks: Vec<String> = Vec::new();
                if get("executing statement") < c.statements {
                    lacks.push(format!("{} statements executed but only {} statement polls", c.statements, get("executing statement")));
                }
                if get("executing attribute") < c.attributes {
                    lacks.push(format!("{} attributes but only {} attribute polls", c.attributes, get("executing attribute")));
                }
                if get("processing scan matches") < c.scan_iterations {
                    lacks.push(format!("{} scan iterations but only {} scan polls", c.scan_iterations, get("processing scan matches")));
                }
                if lazy {
                    if get("processing matches") < c.matches {
                        lacks.push(format!("{} matches but only {} match polls", c.matches, get("processing matches")));
                    }
                    if get("evaluating statement") < c.deferred_statements {
                        lacks.push(format!("{} deferred statements but only {} evaluation polls", c.deferred_statements, get("evaluating statement")));
                    }
                    if get("evaluating value") < c.attr_values_added {
                        lacks.push(format!("{} attribute values but only {} value polls", c.attr_values_added, get("evaluating value")));
                    }
                }
                if !lacks.is_empty() {
                    out.violation(&format!("C11:too-few-polls:{}", mode), &lacks.join("; "), cj());
                    return;
                }
                out.feat(&format!("poll_adequacy_checked:{}", mode));
                if c.scan_iterations > 0 {
                    out.feat("poll_adequacy_with_scan");
                }
            }
            // every cancellation point
            let ks: Vec<u64> = if total <= 1500 {
                out.feat(&format!("exhaustive_cancellation_points:{}", mode));
                (1..=total).collect()
            } else {
                out.feat(&format!("sampled_cancellation_points:{}", mode));
                let mut v: Vec<u64> = (1..=50).collect();
                for _ in 0..300 {
                    v.push(1 + rng.below(total as usize) as u64);
                }
                v.push(total);
                v.sort();
                v.dedup();
                v
            };
            // a slow program gets fewer cancellation points (this only limits what is explored;
            // the harness's own watchdog is CPU time per case)
            let mut ks = ks;
            let affordable = ((40.0 / full_run_seconds.max(1e-4)) as usize).max(40);
            if ks.len() > affordable {
                let step = ks.len() as f64 / affordable as f64;
                let mut picked: Vec<u64> = (0..affordable).map(|i| ks[((i as f64) * step) as usize]).collect();
                picked.extend(ks.iter().take(15));
                picked.push(*ks.last().unwrap());
                picked.sort();
                picked.dedup();
                ks = picked;
                out.feat(&format!("slow_program_cancellation_points_subsampled:{}", mode));
            }
            let mut prev: Option<(u64, OGraph)> = None;
            for k in ks {
                let flag = CountingFlag::new(k);
                let r = catch(|| {
                    let config = ExecutionConfig::new(&functions, &vars).lazy(lazy);
                    let mut g = Graph::new();
                    let r = file.execute_into(&mut g, &tree, &case.source, &config, &flag);
                    (r, observe_graph(&g, &ti))
                });
                out.eval();
                let mut c = cj();
                c["cancel_at_poll"] = json!(k);
                c["polls_of_uncancelled_run"] = json!(total);
                c["mode"] = json!(mode);
                let (res, g) = match r {
                    Ok(x) => x,
                    Err(p) => {
                        out.violation(&format!("C11:panic:{}", mode), &format!("cancelling at poll {}: panic at {}: {}", k, p.location, p.message), c);
                        return;
                    }
                };
                match &res {
                    Ok(()) => {
                        out.violation(&format!("C11:cancellation-ignored:{}", mode), &format!("the flag signalled at poll {} of {} but execution returned success", k, total), c);
                        return;
                    }
                    Err(ExecutionError::Cancelled(_)) => {}
                    Err(e) => {
                        let info = analyse_error(e);
                        let sig = if info.cancelled_anywhere { "cancelled-wrapped" } else { "other-error" };
                        out.violation(&format!("C11:{}:{}", sig, mode), &format!("cancelling at poll {} of {} returned {}", k, total, crate::util::trunc(&info.display, 300)), c);
                        return;
                    }
                }
                let after = flag.polls_after_fail.load(std::sync::atomic::Ordering::SeqCst);
                if after > 0 || flag.count() != k {
                    out.violation(&format!("C11:polls-after-cancellation:{}", mode), &format!("the flag failed at poll {} and was polled {} more times", k, flag.count().saturating_sub(k)), c);
                    return;
                }
                let g = match g {
                    Ok(g) => g,
                    Err(e) => {
                        out.violation("C11:unreadable-graph", &e, c);
                        return;
                    }
                };
                if counted.0.is_ok() {
                    if let Err(why) = is_prefix(&g, &full_graph) {
                        out.violation(&format!("C11:partial-graph-not-a-prefix:{}", mode), &format!("graph left by cancelling at poll {} is not part of the full result: {}", k, why), c);
                        return;
                    }
                }
                if let Some((pk, pg)) = &prev {
                    if let Err(why) = is_prefix(pg, &g) {
                        out.violation(&format!("C11:evaluation-continued:{}", mode), &format!("cancelling at poll {} left more behind than cancelling at poll {}: {}", pk, k, why), c);
                        return;
                    }
                }
                prev = Some((k, g));
            }
            out.feat_n(&format!("cancellation_points:{}", mode), total);
            if counted.0.is_err() {
                out.feat("program_that_fails_uncancelled");
            }
        }
        out.feat("programs");
        if case.text.contains("print ") {
            out.feat("programs_with_print_statements");
        }
        out.nontrivial(case_hash(&case.text, &case.source, &case.prog.globals));
        if out.want_sample() {
            out.sample(cj());
        }
    }
}
