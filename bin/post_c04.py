"""C04: the same workload again under ASan (Rust + clang-instrumented C).  Besides memory errors
at the FFI boundary this is the one environment here whose allocator spreads a tree's nodes over
more than 4 GiB of address space, so the syntax-node identity hook (H2) can actually witness an id
collision (defect D20 was found this way).  quick: a short slice; thorough: a long one."""
import os, sys
sys.path.insert(0, os.path.dirname(os.path.abspath(__file__)))
import sanitize

def post(prop, tier, seed, total, run_dir, binary):
    if tier == "quick":
        sanitize.run_variant("asan", prop, "thorough", seed, total, run_dir, 16, 120, timeout=900)
    else:
        sanitize.run_variant("asan", prop, tier, seed, total, run_dir, 16, 1500, timeout=2400)
