"""Sanitizer / interpreter passes: the same harness workloads rebuilt under ASan (Rust + C),
TSan (build-std, C instrumented), Miri, a plain release profile (no overflow checks), or run
under valgrind memcheck.  Used by the post hooks of individual properties.

Every pass reports:  <tool>:cases, <tool>:evaluations, <tool>:reports  into the evidence
features; a sanitizer report is a violation with the tool's log as the replay artefact; a pass
that cannot be built or does not finish is *inconclusive*, never a violation."""
import json
import os
import re
import subprocess
import time

VERIF = os.path.dirname(os.path.dirname(os.path.abspath(__file__)))
HARNESS = os.path.join(VERIF, "harness")
TRIPLE = "x86_64-unknown-linux-gnu"

VARIANTS = {
    "asan": {
        "env": {"CC": "clang", "CFLAGS": "-fsanitize=address -fno-omit-frame-pointer",
                "RUSTFLAGS": "-Zsanitizer=address -Cforce-frame-pointers=yes"},
        "cargo": ["+nightly", "build", "--release", "--offline", "--target", TRIPLE],
        "bin": os.path.join(VERIF, "target", "asan", TRIPLE, "release", "tsgmon"),
        "run_env": {"ASAN_OPTIONS": "detect_leaks=0:halt_on_error=1:abort_on_error=0:exitcode=77"},
        "marker": "ERROR: AddressSanitizer",
    },
    "tsan": {
        "env": {"CC": "clang", "CFLAGS": "-fsanitize=thread", "RUSTFLAGS": "-Zsanitizer=thread"},
        "cargo": ["+nightly", "build", "--release", "--offline", "-Zbuild-std", "--target", TRIPLE],
        "bin": os.path.join(VERIF, "target", "tsan", TRIPLE, "release", "tsgmon"),
        "run_env": {"TSAN_OPTIONS": "halt_on_error=0:exitcode=0"},
        "marker": "WARNING: ThreadSanitizer",
    },
    "plain": {
        "env": {},
        "cargo": ["build", "--release", "--offline", "--config", "profile.release.overflow-checks=false",
                  "--config", "profile.release.debug-assertions=false"],
        "bin": os.path.join(VERIF, "target", "plain", "release", "tsgmon"),
        "run_env": {},
        "marker": None,
    },
}


def build(variant):
    v = VARIANTS[variant]
    env = dict(os.environ)
    env.update(v["env"])
    env["CARGO_NET_OFFLINE"] = "true"
    env["CARGO_TARGET_DIR"] = os.path.join(VERIF, "target", variant)
    p = subprocess.run(["cargo"] + v["cargo"], cwd=HARNESS, env=env, stdout=subprocess.PIPE, stderr=subprocess.STDOUT, text=True)
    return p.returncode == 0, p.stdout[-3000:]


def merge_outs(outs, total, tool):
    ev = 0
    cases_done = 0
    for o in outs:
        try:
            d = json.load(open(o))
        except Exception:
            continue
        ev += d.get("evaluations", 0)
        cases_done += 1 if d.get("done") else 0
        for v in d.get("violations", []):
            v = dict(v)
            v["signature"] = v.get("signature", "") + ":under-" + tool
            total["violations"].append(v)
        for k, n in d.get("features", {}).items():
            if k.startswith("hook:"):
                kk = "%s:%s" % (tool, k)
                total["features"][kk] = total["features"].get(kk, 0) + n
        for k, n in d.get("inconclusive", {}).items():
            total["inconclusive"]["%s: %s" % (tool, k)] = total["inconclusive"].get("%s: %s" % (tool, k), 0) + n
    return ev, cases_done


def run_variant(variant, prop, tier, seed, total, run_dir, nshards, cases, timeout=3600):
    ok, log = build(variant)
    if not ok:
        total["inconclusive"]["%s: build failed" % variant] = 1
        open(os.path.join(run_dir, "%s_build.log" % variant), "w").write(log)
        return
    v = VARIANTS[variant]
    env = dict(os.environ)
    env.update(v["run_env"])
    # directed cases that kill the process on purpose (known findings) stay with the native run
    env["TSGMON_VARIANT"] = variant
    procs = []
    for i in range(nshards):
        out = os.path.join(run_dir, "%s_shard%d.json" % (variant, i))
        err = os.path.join(run_dir, "%s_shard%d.err" % (variant, i))
        cmd = [v["bin"], "run", prop, "--tier", tier, "--seed", str(seed + 104729), "--shard", str(i), "--nshards", str(nshards),
               "--out", out, "--cases", str(cases), "--case-cpu", "100000", "--replays", os.path.join(VERIF, "replays")]
        procs.append((subprocess.Popen(cmd, stdout=subprocess.DEVNULL, stderr=open(err, "w"), env=env, cwd=run_dir), out, err))
    reports = 0
    t0 = time.time()
    outs = []
    for p, out, err in procs:
        try:
            rc = p.wait(timeout=max(10, timeout - (time.time() - t0)))
        except subprocess.TimeoutExpired:
            p.kill()
            total["inconclusive"]["%s: wall clock limit" % variant] = total["inconclusive"].get("%s: wall clock limit" % variant, 0) + 1
            continue
        outs.append(out)
        text = open(err, errors="replace").read()
        n = text.count(v["marker"]) if v["marker"] else 0
        if n:
            reports += n
            rp = os.path.join(VERIF, "replays", prop)
            os.makedirs(rp, exist_ok=True)
            path = os.path.join(rp, "%s_seed%d_%s" % (variant, seed, os.path.basename(err)))
            open(path, "w").write(text[-200000:])
            first = text[text.find(v["marker"]):][:700].replace("\n", " | ")
            total["violations"].append({"signature": "%s:%s-report" % (prop, variant), "message": "%s reported %d problem(s): %s" % (variant, n, first), "replay": path})
        elif rc != 0:
            # died without a sanitizer report: the native run attributes crashes; here it is noise
            total["inconclusive"]["%s: shard exited with %s" % (variant, rc)] = total["inconclusive"].get("%s: shard exited with %s" % (variant, rc), 0) + 1
    ev, done = merge_outs(outs, total, variant)
    total["features"]["%s:shards_completed" % variant] = done
    total["features"]["%s:evaluations" % variant] = ev
    total["features"]["%s:reports" % variant] = reports
    total["evaluations"] += ev


def run_memcheck(prop, tier, seed, total, run_dir, binary, cases, timeout=3600):
    out = os.path.join(run_dir, "memcheck.json")
    log = os.path.join(run_dir, "memcheck.log")
    t0 = time.time()
    cmd = ["valgrind", "--tool=memcheck", "--error-exitcode=0", "--leak-check=no", "--num-callers=30",
           "--log-file=" + log, binary, "run", prop, "--tier", tier, "--seed", str(seed + 7919),
           "--shard", "0", "--nshards", "1", "--out", out, "--cases", str(cases), "--case-cpu", "100000",
           "--replays", os.path.join(VERIF, "replays")]
    try:
        p = subprocess.run(cmd, stdout=subprocess.DEVNULL, stderr=subprocess.DEVNULL, timeout=timeout, env=dict(os.environ, TSGMON_VARIANT="memcheck"))
        rc = p.returncode
    except subprocess.TimeoutExpired:
        total["inconclusive"]["memcheck: wall clock limit"] = 1
        return
    text = open(log, errors="replace").read() if os.path.exists(log) else ""
    m = re.search(r"ERROR SUMMARY: (\d+) errors", text)
    errors = int(m.group(1)) if m else None
    if errors is None or rc != 0:
        total["inconclusive"]["memcheck: run did not complete (rc %s)" % rc] = 1
        return
    ev, _ = merge_outs([out], total, "memcheck")
    total["features"]["memcheck:cases"] = cases
    total["features"]["memcheck:evaluations"] = ev
    total["features"]["memcheck:seconds"] = int(time.time() - t0)
    total["features"]["memcheck:error_reports"] = errors
    total["evaluations"] += ev
    if errors > 0:
        rp = os.path.join(VERIF, "replays", prop)
        os.makedirs(rp, exist_ok=True)
        path = os.path.join(rp, "memcheck_seed%d.log" % seed)
        open(path, "w").write(text)
        first = text[text.find("=="):][:700].replace("\n", " | ")
        total["violations"].append({"signature": "%s:memcheck-report" % prop, "message": "valgrind memcheck reported %d errors: %s" % (errors, first), "replay": path})


def run_miri(prop, tier, seed, total, run_dir, nprocs, cases, timeout=5400):
    """FFI-free workloads only (Miri cannot call into tree-sitter's C code)."""
    env = dict(os.environ)
    env["CARGO_NET_OFFLINE"] = "true"
    env["CARGO_TARGET_DIR"] = os.path.join(VERIF, "target", "miri")
    env["MIRIFLAGS"] = "-Zmiri-disable-isolation"
    # build once (first process), then fan out
    procs = []
    t0 = time.time()
    for i in range(nprocs):
        out = os.path.join(run_dir, "miri_shard%d.json" % i)
        err = os.path.join(run_dir, "miri_shard%d.err" % i)
        cmd = ["cargo", "+nightly", "miri", "run", "--offline", "--", "run", prop, "--tier", tier, "--seed", str(seed + 15485863),
               "--shard", str(i), "--nshards", str(nprocs), "--out", out, "--cases", str(cases), "--replays", os.path.join(VERIF, "replays")]
        p = subprocess.Popen(cmd, cwd=HARNESS, env=env, stdout=subprocess.DEVNULL, stderr=open(err, "w"))
        procs.append((p, out, err))
        if i == 0:
            # let the first one compile before the others start (they share the target dir)
            while p.poll() is None and not os.path.exists(os.path.join(env["CARGO_TARGET_DIR"], "miri", TRIPLE, "debug", "tsgmon")) and time.time() - t0 < 600:
                time.sleep(2)
            time.sleep(5)
    outs = []
    reports = 0
    for p, out, err in procs:
        try:
            rc = p.wait(timeout=max(10, timeout - (time.time() - t0)))
        except subprocess.TimeoutExpired:
            p.kill()
            total["inconclusive"]["miri: wall clock limit"] = total["inconclusive"].get("miri: wall clock limit", 0) + 1
            continue
        text = open(err, errors="replace").read()
        if "error: Undefined Behavior" in text or "error: unsupported operation" in text or "error: memory leaked" in text:
            reports += 1
            rp = os.path.join(VERIF, "replays", prop)
            os.makedirs(rp, exist_ok=True)
            path = os.path.join(rp, "miri_seed%d_%s" % (seed, os.path.basename(err)))
            open(path, "w").write(text[-200000:])
            i0 = max(text.find("error: Undefined Behavior"), text.find("error: unsupported operation"), text.find("error: memory leaked"))
            kind = "miri-undefined-behaviour" if "error: Undefined Behavior" in text else "miri-other"
            if kind == "miri-other":
                total["inconclusive"]["miri: unsupported operation / leak report"] = 1
            else:
                total["violations"].append({"signature": "%s:%s" % (prop, kind), "message": "Miri: %s" % text[i0:i0 + 700].replace("\n", " | "), "replay": path})
        elif rc != 0:
            total["inconclusive"]["miri: process exited with %s" % rc] = total["inconclusive"].get("miri: process exited with %s" % rc, 0) + 1
        else:
            outs.append(out)
    ev, done = merge_outs(outs, total, "miri")
    total["features"]["miri:processes_completed"] = done
    total["features"]["miri:evaluations"] = ev
    total["features"]["miri:reports"] = reports
    total["evaluations"] += ev
