//! The harness's own AST of the graph DSL (never the crate's), with location slots that the
//! layout printer fills in while emitting text.

#[derive(Clone, Copy, Debug, Default, PartialEq, Eq, PartialOrd, Ord, Hash)]
pub struct Loc {
    pub row: usize,
    /// column in characters
    pub col: usize,
}

#[derive(Clone, Copy, Debug, PartialEq, Eq, Hash)]
pub enum Quant {
    One,
    Opt,
    Star,
    Plus,
}

impl Quant {
    pub fn suffix(&self) -> &'static str {
        match self {
            Quant::One => "",
            Quant::Opt => "?",
            Quant::Star => "*",
            Quant::Plus => "+",
        }
    }
    pub fn is_list(&self) -> bool {
        matches!(self, Quant::Star | Quant::Plus)
    }
}

#[derive(Clone, Debug)]
pub struct GFile {
    pub items: Vec<Item>,
}

#[derive(Clone, Debug)]
pub enum Item {
    Global(GGlobal),
    Inherit(String),
    Shorthand(GShorthand),
    Stanza(GStanza),
}

#[derive(Clone, Debug)]
pub struct GGlobal {
    pub name: String,
    pub quant: Quant,
    pub default: Option<String>,
    pub loc: Loc,
}

#[derive(Clone, Debug)]
pub struct GShorthand {
    pub name: String,
    pub var: GUVar,
    pub attrs: Vec<GAttr>,
    pub loc: Loc,
}

#[derive(Clone, Debug)]
pub struct GStanza {
    /// query text exactly as it is written into the file (may span lines)
    pub query: String,
    /// index into the query pool, when the query came from it
    pub pool: Option<usize>,
    pub stmts: Vec<GStmt>,
    pub loc: Loc,
}

#[derive(Clone, Debug)]
pub struct GStmt {
    pub kind: StmtKind,
    pub loc: Loc,
    /// unique id inside the file (assigned by `GFile::number`)
    pub id: usize,
}

#[derive(Clone, Debug)]
pub enum StmtKind {
    Let(GVar, GExpr),
    Var(GVar, GExpr),
    Set(GVar, GExpr),
    Node(GVar),
    Edge(GExpr, GExpr),
    AttrNode(GExpr, Vec<GAttr>),
    AttrEdge(GExpr, GExpr, Vec<GAttr>),
    Print(Vec<GExpr>),
    Scan(GExpr, Vec<GArm>),
    If(Vec<GIfArm>),
    For(GUVar, GExpr, Vec<GStmt>),
}

impl StmtKind {
    pub fn name(&self) -> &'static str {
        match self {
            StmtKind::Let(..) => "let",
            StmtKind::Var(..) => "var",
            StmtKind::Set(..) => "set",
            StmtKind::Node(..) => "node",
            StmtKind::Edge(..) => "edge",
            StmtKind::AttrNode(..) => "attr_node",
            StmtKind::AttrEdge(..) => "attr_edge",
            StmtKind::Print(..) => "print",
            StmtKind::Scan(..) => "scan",
            StmtKind::If(..) => "if",
            StmtKind::For(..) => "for",
        }
    }
}

#[derive(Clone, Debug)]
pub struct GArm {
    pub regex: String,
    pub stmts: Vec<GStmt>,
    /// location of the regex literal
    pub loc: Loc,
}

#[derive(Clone, Debug)]
pub struct GIfArm {
    /// empty = `else`
    pub conds: Vec<GCond>,
    pub stmts: Vec<GStmt>,
    /// location of the `if` / `elif` / `else` keyword
    pub loc: Loc,
}

#[derive(Clone, Copy, Debug, PartialEq, Eq)]
pub enum CondKind {
    Some,
    None,
    Bool,
}

#[derive(Clone, Debug)]
pub struct GCond {
    pub kind: CondKind,
    pub expr: GExpr,
    pub loc: Loc,
}

#[derive(Clone, Debug)]
pub struct GUVar {
    pub name: String,
    pub loc: Loc,
}

impl GUVar {
    pub fn new(name: &str) -> GUVar {
        GUVar {
            name: name.to_string(),
            loc: Loc::default(),
        }
    }
}

#[derive(Clone, Debug)]
pub enum GVar {
    Unscoped(GUVar),
    /// scope expression, name, location of the name (the character after the dot and gap)
    Scoped(Box<GExpr>, String, Loc),
}

impl GVar {
    pub fn u(name: &str) -> GVar {
        GVar::Unscoped(GUVar::new(name))
    }
    pub fn s(scope: GExpr, name: &str) -> GVar {
        GVar::Scoped(Box::new(scope), name.to_string(), Loc::default())
    }
    pub fn loc(&self) -> Loc {
        match self {
            GVar::Unscoped(u) => u.loc,
            GVar::Scoped(_, _, l) => *l,
        }
    }
    /// the text the library's `Display` gives for this variable (used by debug attributes)
    pub fn display(&self) -> String {
        match self {
            GVar::Unscoped(u) => u.name.clone(),
            GVar::Scoped(scope, name, _) => format!("{}.{}", scope.display(), name),
        }
    }
}

#[derive(Clone, Debug)]
pub struct GAttr {
    pub name: String,
    /// None: written without `= value` (means `#true`)
    pub value: Option<GExpr>,
}

#[derive(Clone, Debug)]
pub enum GExpr {
    Null,
    True,
    False,
    Int(u32),
    Str(String),
    List(Vec<GExpr>),
    Set(Vec<GExpr>),
    ListComp {
        elem: Box<GExpr>,
        var: GUVar,
        src: Box<GExpr>,
        loc: Loc,
    },
    SetComp {
        elem: Box<GExpr>,
        var: GUVar,
        src: Box<GExpr>,
        loc: Loc,
    },
    Capture(String, Loc),
    Var(GVar),
    Call(String, Vec<GExpr>),
    RegexCap(usize),
}

impl GExpr {
    pub fn cap(name: &str) -> GExpr {
        GExpr::Capture(name.to_string(), Loc::default())
    }
    pub fn var(name: &str) -> GExpr {
        GExpr::Var(GVar::u(name))
    }
    pub fn scoped(scope: GExpr, name: &str) -> GExpr {
        GExpr::Var(GVar::s(scope, name))
    }
    pub fn str(s: &str) -> GExpr {
        GExpr::Str(s.to_string())
    }
    pub fn call(f: &str, args: Vec<GExpr>) -> GExpr {
        GExpr::Call(f.to_string(), args)
    }
    /// Display as the library prints expressions (only the forms used as scopes matter)
    pub fn display(&self) -> String {
        match self {
            GExpr::Null => "#null".into(),
            GExpr::True => "true".into(),
            GExpr::False => "false".into(),
            GExpr::Int(i) => format!("{}", i),
            GExpr::Str(s) => format!("{:?}", s),
            GExpr::List(xs) => format!(
                "[{}]",
                xs.iter().map(|x| x.display()).collect::<Vec<_>>().join(", ")
            ),
            GExpr::Set(xs) => format!(
                "{{{}}}",
                xs.iter().map(|x| x.display()).collect::<Vec<_>>().join(", ")
            ),
            GExpr::ListComp { elem, var, src, .. } => {
                format!("[ {} for {} in {} ]", elem.display(), var.name, src.display())
            }
            GExpr::SetComp { elem, var, src, .. } => {
                format!("{{ {} for {} in {} }}", elem.display(), var.name, src.display())
            }
            GExpr::Capture(n, _) => format!("@{}", n),
            GExpr::Var(v) => v.display(),
            GExpr::Call(f, args) => {
                let mut s = format!("({}", f);
                for a in args {
                    s.push(' ');
                    s.push_str(&a.display());
                }
                s.push(')');
                s
            }
            GExpr::RegexCap(i) => format!("${}", i),
        }
    }
}

impl GFile {
    pub fn stanzas(&self) -> Vec<&GStanza> {
        self.items
            .iter()
            .filter_map(|i| match i {
                Item::Stanza(s) => Some(s),
                _ => None,
            })
            .collect()
    }
    pub fn stanzas_mut(&mut self) -> Vec<&mut GStanza> {
        self.items
            .iter_mut()
            .filter_map(|i| match i {
                Item::Stanza(s) => Some(s),
                _ => None,
            })
            .collect()
    }
    pub fn globals(&self) -> Vec<&GGlobal> {
        self.items
            .iter()
            .filter_map(|i| match i {
                Item::Global(g) => Some(g),
                _ => None,
            })
            .collect()
    }
    pub fn inherits(&self) -> Vec<&str> {
        self.items
            .iter()
            .filter_map(|i| match i {
                Item::Inherit(n) => Some(n.as_str()),
                _ => None,
            })
            .collect()
    }
    pub fn shorthands(&self) -> Vec<&GShorthand> {
        self.items
            .iter()
            .filter_map(|i| match i {
                Item::Shorthand(s) => Some(s),
                _ => None,
            })
            .collect()
    }
    /// give every statement a unique id (preorder over the file)
    pub fn number(&mut self) -> usize {
        fn go(stmts: &mut Vec<GStmt>, next: &mut usize) {
            for s in stmts {
                s.id = *next;
                *next += 1;
                match &mut s.kind {
                    StmtKind::Scan(_, arms) => {
                        for a in arms {
                            go(&mut a.stmts, next);
                        }
                    }
                    StmtKind::If(arms) => {
                        for a in arms {
                            go(&mut a.stmts, next);
                        }
                    }
                    StmtKind::For(_, _, body) => go(body, next),
                    _ => {}
                }
            }
        }
        let mut next = 0;
        for st in self.stanzas_mut() {
            go(&mut st.stmts, &mut next);
        }
        next
    }
    /// visit every statement with its nesting depth and the index of its stanza
    pub fn walk_stmts<'a>(&'a self, f: &mut dyn FnMut(usize, usize, &'a GStmt)) {
        fn go<'a>(
            stmts: &'a [GStmt],
            si: usize,
            depth: usize,
            f: &mut dyn FnMut(usize, usize, &'a GStmt),
        ) {
            for s in stmts {
                f(si, depth, s);
                match &s.kind {
                    StmtKind::Scan(_, arms) => {
                        for a in arms {
                            go(&a.stmts, si, depth + 1, f);
                        }
                    }
                    StmtKind::If(arms) => {
                        for a in arms {
                            go(&a.stmts, si, depth + 1, f);
                        }
                    }
                    StmtKind::For(_, _, body) => go(body, si, depth + 1, f),
                    _ => {}
                }
            }
        }
        for (si, st) in self.stanzas().into_iter().enumerate() {
            go(&st.stmts, si, 0, f);
        }
    }
}

pub fn stmt(kind: StmtKind) -> GStmt {
    GStmt {
        kind,
        loc: Loc::default(),
        id: 0,
    }
}
