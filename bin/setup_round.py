#!/usr/bin/env python3
"""prepare one round of independent seeded-change agents.
   usage: setup_round.py <wtroot> <i,j> [<id>...]
   For every property id creates a scratch git worktree <wtroot>/<id> of /repo's HEAD (with Cargo.lock),
   writes out/PROPERTY.json (the property record, nothing else from /verif) and out/ALREADY_KNOWN.json
   (the agents' own summaries of earlier seeded changes for that property) and the prompt
   <wtroot>/<id>/PROMPT.txt instantiated from seeded/AGENT_PROMPT.txt."""
import sys, os, json, subprocess, glob, re, shutil
root = sys.argv[1]; idxs = sys.argv[2].split(','); ids = sys.argv[3:]
props = {}
for l in open('/verif/properties.jsonl'):
    l = l.strip()
    if l:
        p = json.loads(l); props[p['id']] = p
if not ids: ids = sorted(props)
tmpl = open('/verif/seeded/AGENT_PROMPT.txt').read()
os.makedirs(root, exist_ok=True)
for pid in ids:
    d = '%s/%s' % (root, pid)
    if not os.path.exists(d):
        subprocess.check_call(['git', '-C', '/repo', 'worktree', 'add', '--detach', d, 'HEAD'],
                              stdout=subprocess.DEVNULL, stderr=subprocess.DEVNULL)
    shutil.copy('/repo/Cargo.lock', d + '/Cargo.lock')
    os.makedirs(d + '/out', exist_ok=True)
    json.dump(props[pid], open(d + '/out/PROPERTY.json', 'w'), indent=1)
    known = []
    for s in sorted(glob.glob('/verif/seeded/%s-*' % pid)):
        m = {}
        for f in ('agent_meta.json', 'meta.json'):
            if os.path.exists(s + '/' + f):
                try: m = json.load(open(s + '/' + f)); break
                except Exception: pass
        known.append({'summary': m.get('summary'), 'needs': m.get('needs'), 'files': m.get('files')})
    json.dump(known, open(d + '/out/ALREADY_KNOWN.json', 'w'), indent=1)
    t = tmpl
    t = re.sub(r'/tmp/wt\d*/', root.rstrip('/') + '/', t)
    t = t.replace('@ID@', pid).replace('@PROPERTY@', json.dumps(props[pid], indent=1))
    t = t.replace('{13,14}', '{%s}' % ','.join(idxs))
    a, b = idxs[0], idxs[1]
    t = t.replace('mutant13', 'mutant' + a).replace('demo13', 'demo' + a).replace('meta13', 'meta' + a)
    t = t.replace('mutant14', 'mutant' + b).replace('demo14', 'demo' + b).replace('meta14', 'meta' + b)
    open(d + '/PROMPT.txt', 'w').write(t)
    print('ready', d)
