#!/bin/bash
# copy round-2 sub-agent outputs into /verif/seeded/<id>-m<i>/
for id in "$@"; do for i in 3 4; do d=/verif/seeded/$id-m$i; if [ -f /tmp/wt2/$id/out/mutant$i.diff ]; then mkdir -p $d; cp /tmp/wt2/$id/out/mutant$i.diff $d/patch.diff; cp /tmp/wt2/$id/out/demo$i.* $d/ 2>/dev/null; cp /tmp/wt2/$id/out/meta$i.json $d/agent_meta.json 2>/dev/null; fi; done; done
python3 - <<'PY'
import json, os
for d in sorted(os.listdir('/verif/seeded')):
    p='/verif/seeded/'+d
    if os.path.exists(p+'/agent_meta.json') and not os.path.exists(p+'/meta.json'):
        try: am=json.load(open(p+'/agent_meta.json'))
        except Exception: am={}
        json.dump({"property":d.split('-')[0],"kind":"seeded by an independent sub-agent (given only the property text, a scratch worktree and one-line summaries of the two earlier seeded changes)","summary":am.get('summary'),"needs":am.get('needs'),"files":am.get('files'),
                   "ran":"bin/confirm_mutants.py in a scratch worktree: demo passes on HEAD; with patch.diff applied the crate builds, the 162+1 existing tests pass and the demo fails","also_check":[]},open(p+'/meta.json','w'),indent=1)
PY
