//! Values and graphs as the harness sees them (shared by the reference model and by the
//! observation of real graphs through the public API).

use std::collections::BTreeMap;
use std::collections::BTreeSet;

/// A value.  Syntax nodes are identified by the preorder index of the node in the harness's own
/// tree walk (never by the address-derived id the library uses); graph nodes by their index.
#[derive(Clone, Debug, PartialEq, Eq, PartialOrd, Ord, Hash)]
pub enum MVal {
    Null,
    Bool(bool),
    Int(u32),
    Str(String),
    List(Vec<MVal>),
    Set(BTreeSet<MVal>),
    Syn(usize),
    GNode(usize),
}

impl MVal {
    pub fn kind_name(&self) -> &'static str {
        match self {
            MVal::Null => "null",
            MVal::Bool(_) => "bool",
            MVal::Int(_) => "int",
            MVal::Str(_) => "string",
            MVal::List(_) => "list",
            MVal::Set(_) => "set",
            MVal::Syn(_) => "syntax",
            MVal::GNode(_) => "gnode",
        }
    }
    pub fn str(s: &str) -> MVal {
        MVal::Str(s.to_string())
    }
    /// apply a renumbering of graph nodes
    pub fn map_gnodes(&self, f: &dyn Fn(usize) -> usize) -> MVal {
        match self {
            MVal::List(xs) => MVal::List(xs.iter().map(|x| x.map_gnodes(f)).collect()),
            MVal::Set(xs) => MVal::Set(xs.iter().map(|x| x.map_gnodes(f)).collect()),
            MVal::GNode(i) => MVal::GNode(f(*i)),
            other => other.clone(),
        }
    }
    pub fn contains_gnode(&self) -> bool {
        match self {
            MVal::List(xs) => xs.iter().any(|x| x.contains_gnode()),
            MVal::Set(xs) => xs.iter().any(|x| x.contains_gnode()),
            MVal::GNode(_) => true,
            _ => false,
        }
    }
    pub fn gnodes(&self, acc: &mut Vec<usize>) {
        match self {
            MVal::List(xs) => xs.iter().for_each(|x| x.gnodes(acc)),
            MVal::Set(xs) => xs.iter().for_each(|x| x.gnodes(acc)),
            MVal::GNode(i) => acc.push(*i),
            _ => {}
        }
    }
    pub fn to_json(&self) -> serde_json::Value {
        use serde_json::json;
        match self {
            MVal::Null => json!(null),
            MVal::Bool(b) => json!(b),
            MVal::Int(i) => json!(i),
            MVal::Str(s) => json!(s),
            MVal::List(xs) => json!({"list": xs.iter().map(|x| x.to_json()).collect::<Vec<_>>()}),
            MVal::Set(xs) => json!({"set": xs.iter().map(|x| x.to_json()).collect::<Vec<_>>()}),
            MVal::Syn(i) => json!({"syn": i}),
            MVal::GNode(i) => json!({"gnode": i}),
        }
    }
}

pub type Attrs = BTreeMap<String, MVal>;

#[derive(Clone, Debug, Default, PartialEq, Eq)]
pub struct ONode {
    pub attrs: Attrs,
    /// sink -> edge attributes
    pub edges: BTreeMap<usize, Attrs>,
}

/// An observed (or model) graph
#[derive(Clone, Debug, Default, PartialEq, Eq)]
pub struct OGraph {
    pub nodes: Vec<ONode>,
}

impl OGraph {
    pub fn new() -> OGraph {
        OGraph { nodes: Vec::new() }
    }
    pub fn add_node(&mut self) -> usize {
        self.nodes.push(ONode::default());
        self.nodes.len() - 1
    }
    pub fn edge_count(&self) -> usize {
        self.nodes.iter().map(|n| n.edges.len()).sum()
    }
    pub fn attr_count(&self) -> usize {
        self.nodes
            .iter()
            .map(|n| n.attrs.len() + n.edges.values().map(|e| e.len()).sum::<usize>())
            .sum()
    }
    /// renumber graph nodes: node i of self becomes node perm[i]
    pub fn renumber(&self, perm: &[usize]) -> OGraph {
        let f = |i: usize| -> usize {
            if i < perm.len() {
                perm[i]
            } else {
                usize::MAX - i
            }
        };
        let mut nodes = vec![ONode::default(); self.nodes.len()];
        for (i, n) in self.nodes.iter().enumerate() {
            let mut nn = ONode::default();
            for (k, v) in &n.attrs {
                nn.attrs.insert(k.clone(), v.map_gnodes(&f));
            }
            for (sink, ea) in &n.edges {
                let mut a = Attrs::new();
                for (k, v) in ea {
                    a.insert(k.clone(), v.map_gnodes(&f));
                }
                nn.edges.insert(f(*sink), a);
            }
            nodes[perm[i]] = nn;
        }
        OGraph { nodes }
    }
    /// drop the given attribute names everywhere
    pub fn without_attrs(&self, names: &[&str]) -> OGraph {
        let mut g = self.clone();
        for n in &mut g.nodes {
            for nm in names {
                n.attrs.remove(*nm);
            }
            for e in n.edges.values_mut() {
                for nm in names {
                    e.remove(*nm);
                }
            }
        }
        g
    }
    pub fn to_json(&self) -> serde_json::Value {
        use serde_json::json;
        let nodes: Vec<_> = self
            .nodes
            .iter()
            .enumerate()
            .map(|(i, n)| {
                let attrs: serde_json::Map<String, serde_json::Value> =
                    n.attrs.iter().map(|(k, v)| (k.clone(), v.to_json())).collect();
                let edges: Vec<_> = n
                    .edges
                    .iter()
                    .map(|(s, a)| {
                        let ea: serde_json::Map<String, serde_json::Value> =
                            a.iter().map(|(k, v)| (k.clone(), v.to_json())).collect();
                        json!({"sink": s, "attrs": ea})
                    })
                    .collect();
                json!({"id": i, "attrs": attrs, "edges": edges})
            })
            .collect();
        json!(nodes)
    }
    pub fn brief(&self) -> String {
        let s = self.to_json().to_string();
        crate::util::trunc(&s, 1500)
    }
}
