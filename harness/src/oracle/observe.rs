//! Reading real graphs and values through the public API only.

use crate::model::value::*;
use crate::oracle::tree::TreeInfo;
use tree_sitter_graph::graph::{Graph, Value};

/// Convert a library value; `Err` if a syntax node reference does not resolve to a node of the
/// tree the harness walked (that would be an identity violation, reported by the caller).
pub fn observe_value(graph: &Graph, ti: &TreeInfo, v: &Value) -> Result<MVal, String> {
    Ok(match v {
        Value::Null => MVal::Null,
        Value::Boolean(b) => MVal::Bool(*b),
        Value::Integer(i) => MVal::Int(*i),
        Value::String(s) => MVal::Str(s.clone()),
        Value::List(xs) => {
            let mut out = Vec::with_capacity(xs.len());
            for x in xs {
                out.push(observe_value(graph, ti, x)?);
            }
            MVal::List(out)
        }
        Value::Set(xs) => {
            let mut out = std::collections::BTreeSet::new();
            for x in xs {
                out.insert(observe_value(graph, ti, x)?);
            }
            if out.len() != xs.len() {
                return Err("set holds two references to the same syntax node".into());
            }
            MVal::Set(out)
        }
        Value::SyntaxNode(r) => {
            let node = &graph[*r];
            match ti.index_of(node) {
                Some(i) => {
                    // the reference itself carries kind and position: they must describe the node
                    let loc = r.location();
                    let ni = &ti.nodes[i];
                    if (loc.row, loc.column) != ni.start {
                        return Err(format!(
                            "syntax node reference position {:?} differs from node start {:?}",
                            (loc.row, loc.column),
                            ni.start
                        ));
                    }
                    MVal::Syn(i)
                }
                None => return Err("syntax node reference resolves outside the tree".into()),
            }
        }
        Value::GraphNode(r) => MVal::GNode(r.index()),
    })
}

/// Snapshot a real graph through iter_nodes / iter_edges / attributes.iter().
/// Also asserts the structural invariants of the container (ascending sinks, one edge per sink).
pub fn observe_graph(graph: &Graph, ti: &TreeInfo) -> Result<OGraph, String> {
    let mut g = OGraph::new();
    let mut expect = 0usize;
    for r in graph.iter_nodes() {
        if r.index() != expect {
            return Err(format!("iter_nodes yielded {} at position {}", r.index(), expect));
        }
        expect += 1;
        let node = &graph[r];
        let mut on = ONode::default();
        for (k, v) in node.attributes.iter() {
            let mv = observe_value(graph, ti, v)?;
            if on.attrs.insert(k.as_str().to_string(), mv).is_some() {
                return Err(format!("attribute {} listed twice", k));
            }
            if node.attributes.get(k.as_str()) != Some(v) {
                return Err(format!("attribute {}: iter() and get() disagree", k));
            }
        }
        let mut last: Option<usize> = None;
        for (sink, edge) in node.iter_edges() {
            if let Some(l) = last {
                if sink.index() <= l {
                    return Err(format!(
                        "edges of node {} not strictly ascending: {} after {}",
                        r.index(),
                        sink.index(),
                        l
                    ));
                }
            }
            last = Some(sink.index());
            let mut ea = Attrs::new();
            for (k, v) in edge.attributes.iter() {
                ea.insert(k.as_str().to_string(), observe_value(graph, ti, v)?);
            }
            on.edges.insert(sink.index(), ea);
        }
        if node.edge_count() != on.edges.len() {
            return Err(format!("edge_count disagrees with iter_edges on node {}", r.index()));
        }
        g.nodes.push(on);
    }
    if graph.node_count() != g.nodes.len() {
        return Err("node_count disagrees with iter_nodes".into());
    }
    for (i, n) in g.nodes.iter().enumerate() {
        for s in n.edges.keys() {
            if *s >= g.nodes.len() {
                return Err(format!("edge {} -> {} points outside the graph", i, s));
            }
        }
    }
    Ok(g)
}
