#!/usr/bin/env python3
"""Run the quick checks against the seeded changes, in an isolated copy (never in /repo):
   /tmp/mut/repo = scratch worktree of /repo's HEAD, /tmp/mut/verif = copy of /verif whose harness
   depends on /tmp/mut/repo.  Results go to /verif/seeded/<id>/detect.json.
   usage: run_mutants.py [--props C01,C02] [--only <seeded dir name>...] [--all-props-for <name>]"""
import json, os, re, shutil, subprocess, sys, glob, time
MUT=os.environ.get('MUT_DIR','/tmp/mut')
def sh(cmd, cwd=None, env=None, timeout=3600):
    p=subprocess.run(cmd, shell=True, cwd=cwd, env=env, stdout=subprocess.PIPE, stderr=subprocess.STDOUT, text=True, timeout=timeout)
    return p.returncode, p.stdout
def setup():
    os.makedirs(MUT, exist_ok=True)
    head=subprocess.run(['git','-C','/repo','rev-parse','HEAD'],capture_output=True,text=True).stdout.strip()
    if not os.path.exists(MUT+'/repo'):
        sh('git -C /repo worktree add -f --detach %s/repo HEAD' % MUT)
    sh('git checkout -q --detach %s && git reset -q --hard && git clean -fdq -e target -e Cargo.lock' % head, cwd=MUT+'/repo')
    shutil.copy('/repo/Cargo.lock', MUT+'/repo/Cargo.lock')
    sh('rsync -a --delete --exclude target --exclude work --exclude replays --exclude .git --exclude seeded /verif/ %s/verif/' % MUT)
    ct=MUT+'/verif/harness/Cargo.toml'
    s=open(ct).read().replace('path = "/repo"','path = "%s/repo"' % MUT)
    open(ct,'w').write(s)
def run(name, props, budget):
    d='/verif/seeded/'+name
    rc,out=sh('git apply %s/patch.diff' % d, cwd=MUT+'/repo')
    res={'name':name,'checks':{}}
    if rc!=0:
        res['apply_error']=out[-400:]
        return res
    env=dict(os.environ, VERIF_BUDGET=str(budget), VERIF_SEED=os.environ.get('VERIF_SEED','0'))
    for p in props:
        t0=time.time()
        rc,out=sh('%s/verif/bin/check %s quick' % (MUT,p), cwd=MUT+'/verif', env=env)
        sigs=re.findall(r'signature=(\S+)', out)
        res['checks'][p]={'exit':rc,'signatures':sigs,'seconds':round(time.time()-t0,1),'tail':out[-700:] if rc not in (0,1) else ''}
    sh('git checkout -- . && git clean -fdq -e target -e Cargo.lock', cwd=MUT+'/repo')
    return res
if __name__=='__main__':
    args=sys.argv[1:]
    props_filter=None; only=[]; budget=25; allprops=False
    i=0
    while i<len(args):
        if args[i]=='--props': props_filter=args[i+1].split(','); i+=2
        elif args[i]=='--budget': budget=int(args[i+1]); i+=2
        elif args[i]=='--all-props': allprops=True; i+=1
        else: only.append(args[i]); i+=1
    setup()
    meta=json.load(open('/verif/props_meta.json'))
    built=[p for p,m in meta.items() if not m.get('unclaimed')]
    names=only or sorted(os.path.basename(d) for d in glob.glob('/verif/seeded/*') if os.path.exists(d+'/patch.diff'))
    for name in names:
        own=name.split('-')[0]
        meta_file='/verif/seeded/%s/meta.json' % name
        extra=[]
        if os.path.exists(meta_file):
            extra=json.load(open(meta_file)).get('also_check',[])
        props=[p for p in ([own]+extra) if p in built]
        if allprops: props=built
        if props_filter: props=[p for p in props if p in props_filter]
        if not props: continue
        r=run(name, props, budget)
        prev={}
        f='/verif/seeded/%s/detect.json' % name
        if os.path.exists(f):
            prev=json.load(open(f)).get('checks',{})
        prev.update(r.get('checks',{}))
        r['checks']=prev
        json.dump(r,open(f,'w'),indent=1)
        print(name, {p:(c['exit'],c['signatures'][:3]) for p,c in r['checks'].items()}, flush=True)
