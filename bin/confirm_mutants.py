#!/usr/bin/env python3
"""Confirm seeded changes in a scratch worktree (never in /repo):
 for each /verif/seeded/<id>/: (1) the demo passes on clean HEAD, (2) with patch.diff applied the crate
 builds, the existing suite (162 tests + doc test) passes, and the demo fails.  Writes confirm.json."""
import json, os, re, subprocess, sys, shutil, glob
WT=os.environ.get('CM_WT','/tmp/cm/wt')
ENV=dict(os.environ, CARGO_NET_OFFLINE='true')
def sh(cmd, cwd=WT, timeout=1800):
    p=subprocess.run(cmd, cwd=cwd, shell=True, env=ENV, stdout=subprocess.PIPE, stderr=subprocess.STDOUT, text=True, timeout=timeout)
    return p.returncode, p.stdout
def setup():
    if not os.path.exists(WT):
        os.makedirs(os.path.dirname(WT), exist_ok=True)
        sh('git -C /repo worktree add -f --detach %s HEAD' % WT, cwd='/')
    sh('git checkout -q --detach %s && git reset -q --hard && git clean -fdq -e target -e Cargo.lock' % subprocess.run(['git','-C','/repo','rev-parse','HEAD'],capture_output=True,text=True).stdout.strip())
    shutil.copy('/repo/Cargo.lock', WT+'/Cargo.lock')
def clean():
    sh('git reset -q --hard && git clean -fdq -e target -e Cargo.lock')
def run_tests(demo_mod):
    rc,out=sh('cargo test --workspace --no-fail-fast --offline 2>&1')
    failed=re.findall(r'^test (\S+) \.\.\. FAILED', out, re.M)
    passed=len(re.findall(r'^test (\S+) \.\.\. ok', out, re.M))
    compile_error = 'error[' in out or 'could not compile' in out
    demo_failed=[f for f in failed if demo_mod and f.startswith(demo_mod+'::')]
    other_failed=[f for f in failed if not (demo_mod and f.startswith(demo_mod+'::'))]
    return dict(passed=passed, demo_failed=demo_failed, other_failed=other_failed, compile_error=compile_error, tail=out[-1500:] if compile_error else '')
def confirm(d):
    name=os.path.basename(d)
    res={'name':name}
    demo_rs=glob.glob(d+'/demo*.rs'); demo_sh=glob.glob(d+'/demo*.sh')
    clean()
    demo_mod=None
    if demo_rs:
        demo_mod=os.path.splitext(os.path.basename(demo_rs[0]))[0]
        shutil.copy(demo_rs[0], WT+'/tests/it/'+demo_mod+'.rs')
        with open(WT+'/tests/it/main.rs','a') as f: f.write('\nmod %s;\n'%demo_mod)
    # clean HEAD
    if demo_rs:
        r=run_tests(demo_mod); res['head']=r
        head_ok = not r['compile_error'] and not r['demo_failed'] and not r['other_failed']
    else:
        rc,out=sh('bash %s %s 2>&1' % (demo_sh[0], WT)); res['head']={'rc':rc,'tail':out[-600:]}
        head_ok = rc==0
    # with patch
    rc,out=sh('git apply %s/patch.diff' % d)
    if rc!=0:
        res['apply_error']=out[-500:]; res['confirmed']=False; return res
    if demo_rs:
        r=run_tests(demo_mod); res['mutant']=r
        mut_ok = not r['compile_error'] and not r['other_failed'] and len(r['demo_failed'])>0 and r["passed"]>=162
    else:
        r=run_tests(None); res['mutant_suite']=r
        rc2,out2=sh('bash %s %s 2>&1' % (demo_sh[0], WT)); res['mutant']={'rc':rc2,'tail':out2[-600:]}
        mut_ok = not r['compile_error'] and not r['other_failed'] and rc2!=0
    res['confirmed']=bool(head_ok and mut_ok)
    clean()
    return res
if __name__=='__main__':
    setup()
    dirs=sys.argv[1:] or sorted(glob.glob('/verif/seeded/*'))
    for d in dirs:
        if not os.path.exists(d+'/patch.diff'): continue
        if os.path.exists(d+'/confirm.json') and not os.environ.get('FORCE'): continue
        try:
            r=confirm(d)
        except Exception as e:
            r={'name':os.path.basename(d),'confirmed':False,'exception':str(e)}
        json.dump(r,open(d+'/confirm.json','w'),indent=1)
        print(r['name'], 'CONFIRMED' if r.get('confirmed') else 'NOT CONFIRMED', flush=True)
