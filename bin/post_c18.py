"""C18 sanitizer passes (the bundles are the crate's only unsafe code)."""
import os, sys
sys.path.insert(0, os.path.dirname(os.path.abspath(__file__)))
import sanitize

def post(prop, tier, seed, total, run_dir, binary):
    if tier == "quick":
        sanitize.run_memcheck(prop, tier, seed, total, run_dir, binary, 120, timeout=900)
    else:
        sanitize.run_memcheck(prop, tier, seed, total, run_dir, binary, 1500, timeout=3000)
        sanitize.run_variant("asan", prop, tier, seed, total, run_dir, 16, 4000, timeout=2400)
