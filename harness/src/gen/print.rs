//! Layout printer: prints a `GFile` to text, token by token, choosing a gap at every place
//! where the documented syntax allows one, and records (row, character column) of every located
//! construct into the AST.  It is the independent source of truth for all location oracles.

use super::ast::*;
use crate::util::Rng;

const COMMENTS: &[&str] = &[
    "; c",
    ";",
    "; ünï — 日本 😀",
    "; { not a block \" not a string",
    ";; let x = 1 }",
    "; attribute global inherit",
];

fn is_ident(c: char) -> bool {
    c == '_' || c == '-' || c.is_alphanumeric()
}

pub struct Printer<'r> {
    pub out: String,
    row: usize,
    col: usize,
    last: char,
    /// None => house layout (one statement per line, single spaces)
    rng: Option<&'r mut Rng>,
    /// number of gaps that contained a comment / a newline (layout evidence)
    pub comments: usize,
    pub newlines_in_gaps: usize,
    pub multi_line_strings: usize,
    pub trailing_commas: usize,
}

pub fn escape_string(s: &str) -> String {
    let mut o = String::from("\"");
    for c in s.chars() {
        match c {
            '"' => o.push_str("\\\""),
            '\\' => o.push_str("\\\\"),
            '\n' => o.push_str("\\n"),
            '\r' => o.push_str("\\r"),
            '\t' => o.push_str("\\t"),
            '\0' => o.push_str("\\0"),
            c => o.push(c),
        }
    }
    o.push('"');
    o
}

/// like `escape_string`, but line feeds and tabs stay as they are
pub fn escape_string_keeping_line_feeds(s: &str) -> String {
    let mut o = String::from("\"");
    for c in s.chars() {
        match c {
            '"' => o.push_str("\\\""),
            '\\' => o.push_str("\\\\"),
            '\r' => o.push_str("\\r"),
            '\0' => o.push_str("\\0"),
            c => o.push(c),
        }
    }
    o.push('"');
    o
}

impl<'r> Printer<'r> {
    pub fn house() -> Printer<'static> {
        Printer {
            out: String::new(),
            row: 0,
            col: 0,
            last: '\n',
            rng: None,
            comments: 0,
            newlines_in_gaps: 0,
            multi_line_strings: 0,
            trailing_commas: 0,
        }
    }
    pub fn wild(rng: &'r mut Rng) -> Printer<'r> {
        Printer {
            out: String::new(),
            row: 0,
            col: 0,
            last: '\n',
            rng: Some(rng),
            comments: 0,
            newlines_in_gaps: 0,
            multi_line_strings: 0,
            trailing_commas: 0,
        }
    }

    fn here(&self) -> Loc {
        Loc {
            row: self.row,
            col: self.col,
        }
    }

    fn raw(&mut self, s: &str) {
        for c in s.chars() {
            if c == '\n' {
                self.row += 1;
                self.col = 0;
            } else {
                self.col += 1;
            }
            self.last = c;
        }
        self.out.push_str(s);
    }

    /// some whitespace (possibly with comments); always non-empty
    fn some_gap(&mut self) {
        let rng = match self.rng.as_mut() {
            None => {
                self.raw(" ");
                return;
            }
            Some(r) => r,
        };
        let n = 1 + rng.below(2);
        let mut s = String::new();
        for _ in 0..n {
            match rng.below(13) {
                12 => s.push_str("\r\n"),
                0 | 1 | 2 | 3 | 4 => s.push(' '),
                5 => s.push_str("  "),
                6 => s.push('\t'),
                7 | 8 => s.push('\n'),
                9 => s.push_str("\n    "),
                _ => {
                    if !s.is_empty() || true {
                        s.push(' ');
                    }
                    s.push_str(*rng.pick(COMMENTS));
                    s.push('\n');
                }
            }
        }
        if s.contains(';') {
            self.comments += 1;
        }
        if s.contains('\n') {
            self.newlines_in_gaps += 1;
        }
        self.raw(&s);
    }

    /// a gap before a token starting with `next`: mandatory iff both neighbours are
    /// identifier characters (they would merge otherwise)
    fn gap(&mut self, next: char) {
        let required = is_ident(self.last) && is_ident(next);
        if required {
            self.some_gap();
        } else {
            let emit = match self.rng.as_mut() {
                None => false,
                Some(r) => r.chance(1, 2),
            };
            if emit {
                self.some_gap();
            }
        }
    }

    /// house layout wants a space here although none is needed (`a = b`, `k = v`, `a, b`)
    fn soft(&mut self, next: char) {
        if self.rng.is_none() {
            self.raw(" ");
        } else {
            self.gap(next);
        }
    }

    fn tok(&mut self, t: &str) -> Loc {
        let first = t.chars().next().unwrap_or(' ');
        self.gap(first);
        let l = self.here();
        self.raw(t);
        l
    }

    /// token that house layout precedes with a space
    fn stok(&mut self, t: &str) -> Loc {
        let first = t.chars().next().unwrap_or(' ');
        self.soft(first);
        let l = self.here();
        self.raw(t);
        l
    }

    /// token glued to the previous one (no gap allowed)
    fn glue(&mut self, t: &str) -> Loc {
        let l = self.here();
        self.raw(t);
        l
    }

    fn line(&mut self, indent: usize) {
        match self.rng {
            None => {
                if !self.out.is_empty() {
                    self.raw("\n");
                }
                let pad = "  ".repeat(indent);
                self.raw(&pad);
            }
            Some(_) => {
                if !self.out.is_empty() {
                    self.some_gap();
                } else {
                    // optional leading whitespace / comment at the very start of the file
                    let lead = self.rng.as_mut().unwrap().chance(1, 3);
                    if lead {
                        self.some_gap();
                    }
                }
            }
        }
    }

    pub fn file(&mut self, f: &mut GFile) {
        for item in &mut f.items {
            self.line(0);
            match item {
                Item::Global(g) => {
                    self.glue("global");
                    self.some_gap();
                    g.loc = self.glue(&g.name);
                    if g.quant != Quant::One {
                        self.glue(g.quant.suffix());
                    } else {
                        // the character after an unquantified name must be real whitespace
                        let ws = match self.rng.as_mut() {
                            None => " ",
                            Some(r) => *r.pick(&[" ", "\t", "\n"]),
                        };
                        if g.default.is_some() || self.rng.is_some() {
                            self.raw(ws);
                        } else {
                            self.raw("\n");
                        }
                    }
                    if let Some(d) = &g.default {
                        self.stok("=");
                        self.stok(&escape_string(d));
                    }
                    if self.rng.is_some() && is_ident(self.last) == false && self.last != '\n' {
                        // keep top-level items apart
                    }
                }
                Item::Inherit(n) => {
                    self.glue("inherit");
                    self.soft('.');
                    self.glue(".");
                    self.glue(n);
                }
                Item::Shorthand(s) => {
                    self.glue("attribute");
                    self.some_gap();
                    s.loc = self.glue(&s.name);
                    self.stok("=");
                    self.soft('v');
                    s.var.loc = self.glue(&s.var.name);
                    self.stok("=>");
                    self.attrs(&mut s.attrs);
                }
                Item::Stanza(st) => {
                    st.loc = self.glue(&st.query);
                    self.gap('{');
                    if self.rng.is_none() {
                        self.raw("\n");
                    }
                    self.block(&mut st.stmts, 0);
                }
            }
        }
        // optional trailing whitespace / comment; a comment at EOF without newline is legal
        match self.rng.as_mut() {
            None => self.raw("\n"),
            Some(r) => match r.below(4) {
                0 => {}
                1 => self.raw("\n"),
                2 => self.raw(" ; last words"),
                _ => self.some_gap(),
            },
        }
    }

    /// `{ stmts }` – the opening brace is emitted here
    fn block(&mut self, stmts: &mut Vec<GStmt>, indent: usize) {
        self.glue("{");
        for s in stmts.iter_mut() {
            self.line(indent + 1);
            self.stmt(s, indent + 1);
        }
        if self.rng.is_none() {
            self.raw("\n");
            let pad = "  ".repeat(indent);
            self.raw(&pad);
            self.glue("}");
        } else {
            self.tok("}");
        }
    }

    fn stmt(&mut self, s: &mut GStmt, indent: usize) {
        match &mut s.kind {
            StmtKind::Let(v, e) => {
                s.loc = self.glue("let");
                self.var(v);
                self.stok("=");
                self.sexpr(e);
            }
            StmtKind::Var(v, e) => {
                s.loc = self.glue("var");
                self.var(v);
                self.stok("=");
                self.sexpr(e);
            }
            StmtKind::Set(v, e) => {
                s.loc = self.glue("set");
                self.var(v);
                self.stok("=");
                self.sexpr(e);
            }
            StmtKind::Node(v) => {
                s.loc = self.glue("node");
                self.var(v);
            }
            StmtKind::Edge(a, b) => {
                s.loc = self.glue("edge");
                self.sexpr(a);
                self.stok("->");
                self.sexpr(b);
            }
            StmtKind::AttrNode(n, attrs) => {
                s.loc = self.glue("attr");
                self.stok("(");
                self.expr(n);
                self.tok(")");
                self.attrs(attrs);
            }
            StmtKind::AttrEdge(a, b, attrs) => {
                s.loc = self.glue("attr");
                self.stok("(");
                self.expr(a);
                self.stok("->");
                self.sexpr(b);
                self.tok(")");
                self.attrs(attrs);
            }
            StmtKind::Print(xs) => {
                s.loc = self.glue("print");
                for (i, x) in xs.iter_mut().enumerate() {
                    if i > 0 {
                        self.tok(",");
                    }
                    self.sexpr(x);
                }
            }
            StmtKind::Scan(e, arms) => {
                s.loc = self.glue("scan");
                self.sexpr(e);
                self.stok("{");
                for arm in arms.iter_mut() {
                    self.line(indent + 1);
                    let t = escape_string(&arm.regex);
                    arm.loc = self.glue(&t);
                    self.soft('{');
                    self.block(&mut arm.stmts, indent + 1);
                }
                if self.rng.is_none() {
                    self.raw("\n");
                    let pad = "  ".repeat(indent);
                    self.raw(&pad);
                    self.glue("}");
                } else {
                    self.tok("}");
                }
            }
            StmtKind::If(arms) => {
                for (i, arm) in arms.iter_mut().enumerate() {
                    if i == 0 {
                        arm.loc = self.glue("if");
                        s.loc = arm.loc;
                    } else if arm.conds.is_empty() {
                        arm.loc = self.stok("else");
                    } else {
                        arm.loc = self.stok("elif");
                    }
                    let nconds = arm.conds.len();
                    for (ci, c) in arm.conds.iter_mut().enumerate() {
                        match c.kind {
                            CondKind::Some => {
                                c.loc = self.stok("some");
                                // documented syntax: keyword, whitespace, expression
                                self.some_gap();
                                self.gexpr(&mut c.expr);
                            }
                            CondKind::None => {
                                c.loc = self.stok("none");
                                self.some_gap();
                                self.gexpr(&mut c.expr);
                            }
                            CondKind::Bool => {
                                let first = expr_first_char(&c.expr);
                                self.soft(first);
                                c.loc = self.here();
                                self.gexpr(&mut c.expr);
                            }
                        }
                        if ci + 1 < nconds {
                            self.tok(",");
                        }
                    }
                    self.soft('{');
                    self.block(&mut arm.stmts, indent);
                }
            }
            StmtKind::For(v, e, body) => {
                s.loc = self.glue("for");
                self.soft('v');
                v.loc = self.glue(&v.name);
                self.stok("in");
                self.sexpr(e);
                self.soft('{');
                self.block(body, indent);
            }
        }
    }

    fn attrs(&mut self, attrs: &mut Vec<GAttr>) {
        for (i, a) in attrs.iter_mut().enumerate() {
            if i > 0 {
                self.tok(",");
            }
            self.stok(&a.name);
            if let Some(v) = &mut a.value {
                self.stok("=");
                self.sexpr(v);
            }
        }
    }

    fn var(&mut self, v: &mut GVar) {
        match v {
            GVar::Unscoped(u) => {
                self.soft('v');
                u.loc = self.glue(&u.name);
            }
            GVar::Scoped(scope, name, loc) => {
                self.sexpr(scope);
                self.tok(".");
                self.gap('n');
                *loc = self.glue(name);
            }
        }
    }

    /// expression preceded by a house-layout space
    fn sexpr(&mut self, e: &mut GExpr) {
        let first = expr_first_char(e);
        self.soft(first);
        self.gexpr(e);
    }

    /// expression preceded by an ordinary gap
    fn expr(&mut self, e: &mut GExpr) {
        let first = expr_first_char(e);
        self.gap(first);
        self.gexpr(e);
    }

    /// expression glued at the current position (the gap has been emitted by the caller)
    fn gexpr(&mut self, e: &mut GExpr) {
        match e {
            GExpr::Null => {
                self.glue("#null");
            }
            GExpr::True => {
                self.glue("#true");
            }
            GExpr::False => {
                self.glue("#false");
            }
            GExpr::Int(i) => {
                let t = format!("{}", i);
                self.glue(&t);
            }
            GExpr::Str(s) => {
                // random layouts write line feeds and tabs inside a string literally now and
                // then: the literal then spans lines, and everything after it sits on a later row
                let literal = match self.rng.as_mut() {
                    Some(r) => (s.contains('\n') || s.contains('\t')) && r.chance(1, 2),
                    None => false,
                };
                let t = if literal { escape_string_keeping_line_feeds(s) } else { escape_string(s) };
                if literal {
                    self.multi_line_strings += 1;
                }
                self.glue(&t);
            }
            GExpr::List(xs) => {
                self.glue("[");
                self.seq(xs);
                self.tok("]");
            }
            GExpr::Set(xs) => {
                self.glue("{");
                self.seq(xs);
                self.tok("}");
            }
            GExpr::ListComp { elem, var, src, loc } => {
                *loc = self.glue("[");
                self.expr(elem);
                self.stok("for");
                self.soft('v');
                var.loc = self.glue(&var.name);
                self.stok("in");
                self.sexpr(src);
                self.tok("]");
            }
            GExpr::SetComp { elem, var, src, loc } => {
                *loc = self.glue("{");
                self.expr(elem);
                self.stok("for");
                self.soft('v');
                var.loc = self.glue(&var.name);
                self.stok("in");
                self.sexpr(src);
                self.tok("}");
            }
            GExpr::Capture(n, loc) => {
                *loc = self.glue("@");
                self.glue(n);
            }
            GExpr::Var(v) => match v {
                GVar::Unscoped(u) => {
                    u.loc = self.glue(&u.name);
                }
                GVar::Scoped(scope, name, loc) => {
                    self.gexpr(scope);
                    self.tok(".");
                    self.gap('n');
                    *loc = self.glue(name);
                }
            },
            GExpr::Call(f, args) => {
                self.glue("(");
                self.tok(f);
                for a in args.iter_mut() {
                    // arguments are separated by whitespace
                    let first = expr_first_char(a);
                    if self.rng.is_none() {
                        self.raw(" ");
                    } else {
                        let _ = first;
                        self.some_gap();
                    }
                    self.gexpr(a);
                }
                self.tok(")");
            }
            GExpr::RegexCap(i) => {
                let t = format!("${}", i);
                self.glue(&t);
            }
        }
    }

    fn seq(&mut self, xs: &mut Vec<GExpr>) {
        let n = xs.len();
        for (i, x) in xs.iter_mut().enumerate() {
            if i > 0 {
                self.tok(",");
                self.sexpr(x);
            } else {
                self.expr(x);
            }
            if i + 1 == n {
                let trailing = match self.rng.as_mut() {
                    None => false,
                    Some(r) => r.chance(1, 3),
                };
                if trailing {
                    self.tok(",");
                    self.trailing_commas += 1;
                }
            }
        }
    }
}

fn expr_first_char(e: &GExpr) -> char {
    match e {
        GExpr::Null | GExpr::True | GExpr::False => '#',
        GExpr::Int(_) => '0',
        GExpr::Str(_) => '"',
        GExpr::List(_) | GExpr::ListComp { .. } => '[',
        GExpr::Set(_) | GExpr::SetComp { .. } => '{',
        GExpr::Capture(..) => '@',
        GExpr::Var(GVar::Unscoped(_)) => 'v',
        GExpr::Var(GVar::Scoped(s, _, _)) => expr_first_char(s),
        GExpr::Call(..) => '(',
        GExpr::RegexCap(_) => '$',
    }
}

/// Print in house layout; fills locations.
pub fn print_house(f: &mut GFile) -> String {
    let mut p = Printer::house();
    p.file(f);
    p.out
}

/// Print in a random layout; fills locations.
pub fn print_wild(f: &mut GFile, rng: &mut Rng) -> (String, usize, usize, usize) {
    let mut p = Printer::wild(rng);
    p.file(f);
    (p.out, p.comments, p.newlines_in_gaps, p.trailing_commas)
}
