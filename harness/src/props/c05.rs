//! C05 – no input makes loading, execution or error rendering panic or hang.
//! Mutation fuzzing of DSL text (token and character level, kept valid UTF-8, bracket nesting
//! depth <= 64), execution of everything that loads on generated trees in both modes, and
//! rendering (plain and pretty) of every error produced; trace logging is on so that the
//! Display impls only reachable through logging run under the no-panic monitor too.

use super::c07::FreeGen;
use super::common::*;
use crate::gen::dsl::{gen_program, GenCfg};
use crate::gen::print::{print_house, print_wild};
use crate::gen::py;
use crate::oracle::exec::{self, ExecOpts, Loaded, Real};
use crate::oracle::tree::{parse_python, TreeInfo};
use crate::util::{catch, hash_str, mix, Out, PanicInfo, Rng};
use crate::{Prop, RunCfg, Tier};
use serde_json::json;
use std::collections::{BTreeMap, HashMap, HashSet};
use std::path::Path;
use streaming_iterator::StreamingIterator;
use tree_sitter_graph::ast as tsg;

pub struct C05;

struct NullLogger;
impl log::Log for NullLogger {
    fn enabled(&self, _: &log::Metadata) -> bool {
        true
    }
    fn log(&self, record: &log::Record) {
        // format the message: this is what runs the Display impls of lazy values / statements
        let s = format!("{}", record.args());
        std::hint::black_box(s);
    }
    fn flush(&self) {}
}
static LOGGER: NullLogger = NullLogger;

pub fn enable_trace_logging() {
    let _ = log::set_logger(&LOGGER);
    log::set_max_level(log::LevelFilter::Trace);
}

const SEEDS: &[&str] = &[
    "(module) @m { node n attr (n) a = 1 }",
    "global filename\n(module) @root { scan filename { \"([^/]+)/\" { node n attr (n) name = $1 } \"__init__\\\\.py$\" { print $0 } } }",
    "attribute sh = v => a = v, b = (format \"{}\" v)\n(identifier) @id { node @id.n attr (@id.n) sh = (source-text @id) }",
    "inherit .scope\n(module) @m { node @m.scope }\n(identifier) @id { node n edge n -> @id.scope attr (n -> @id.scope) k }",
    "(call function: (_) @f arguments: (argument_list (_)* @args)) { for a in @args { print a } if some @f { } }",
    "(assignment left: (_) @l right: (_)? @r) { if none @r { } elif some @r, #true { let x = [ (source-text y) for y in [@l] ] print x } else { } }",
    "(identifier) @id { var v = {1, \"a\", #null} set v = [v] let @id.x = v }",
];

const STRAY: &[&str] = &[
    "{", "}", "(", ")", "[", "]", ",", ".", "->", "=", "=>", "@", "$", "#", "\"", ";", "?", "*", "+", "\\", "@x", "$1", "#true", "#nope",
    "let", "var", "set", "node", "edge", "attr", "print", "scan", "if", "elif", "else", "for", "in", "some", "none", "global", "attribute", "inherit",
    "99999999999", "$99999999999999999999999", "4294967296", "00000000000000000001", "é", "😀", "\u{0}", "\t", "\n", "\r\n",
];

fn tokenize(s: &str) -> Vec<String> {
    let cs: Vec<char> = s.chars().collect();
    let mut out = Vec::new();
    let mut i = 0;
    while i < cs.len() {
        let c = cs[i];
        let st = i;
        if c.is_alphanumeric() || c == '_' {
            while i < cs.len() && (cs[i].is_alphanumeric() || cs[i] == '_' || cs[i] == '-') {
                i += 1;
            }
        } else if c == '"' {
            i += 1;
            while i < cs.len() && cs[i] != '"' {
                if cs[i] == '\\' {
                    i += 1;
                }
                i += 1;
            }
            i = (i + 1).min(cs.len());
        } else if c.is_whitespace() {
            while i < cs.len() && cs[i].is_whitespace() {
                i += 1;
            }
        } else {
            i += 1;
        }
        out.push(cs[st..i.min(cs.len())].iter().collect());
    }
    out
}

fn mutate(rng: &mut Rng, text: &str) -> (String, &'static str) {
    let mut toks = tokenize(text);
    if toks.is_empty() {
        return ((*rng.pick(STRAY)).to_string(), "stray_only");
    }
    let i = rng.below(toks.len());
    let kind = match rng.below(16) {
        0 => {
            toks.remove(i);
            "delete_token"
        }
        1 => {
            let t = toks[i].clone();
            toks.insert(i, t);
            "duplicate_token"
        }
        2 => {
            if i + 1 < toks.len() {
                toks.swap(i, i + 1);
            }
            "swap_tokens"
        }
        3 | 4 | 5 => {
            toks.insert(i, (*rng.pick(STRAY)).to_string());
            "insert_stray"
        }
        6 => {
            toks[i] = (*rng.pick(STRAY)).to_string();
            "replace_token"
        }
        7 => {
            toks.truncate(i);
            "truncate"
        }
        8 => {
            toks.insert(i, "\"unterminated".to_string());
            "unterminated_string"
        }
        9 => {
            toks.insert(i, "; comment without end".to_string());
            "comment_swallows_line"
        }
        10 => {
            // numerals: replace any number by a huge one
            let mut done = false;
            for t in toks.iter_mut() {
                if t.chars().all(|c| c.is_ascii_digit()) && !t.is_empty() {
                    *t = (*rng.pick(&["99999999999", "4294967296", "18446744073709551616", "4294967295"])).to_string();
                    done = true;
                    break;
                }
            }
            if !done {
                toks.insert(i, "99999999999".into());
            }
            "huge_numeral"
        }
        11 => {
            // deep but legal nesting (depth 40 <= 64)
            let d = rng.range(20, 40);
            toks.insert(i, format!("{}1{}", "[".repeat(d), "]".repeat(d)));
            "deep_nesting"
        }
        12 => {
            // character level
            let joined: String = toks.concat();
            let mut cs: Vec<char> = joined.chars().collect();
            if !cs.is_empty() {
                let p = rng.below(cs.len());
                match rng.below(3) {
                    0 => {
                        cs.remove(p);
                    }
                    1 => cs.insert(p, *rng.pick(&['é', '"', '\\', '\n', '{', '😀', '\u{7f}'])),
                    _ => cs[p] = *rng.pick(&['x', '@', '.', ' ']),
                }
            }
            return (cs.into_iter().collect(), "char_level");
        }
        14 => {
            // a line ends right after a token (no blank in between)
            toks.insert(i + 1, "\n".to_string());
            "line_break_after_token"
        }
        15 => {
            toks.insert(i, format!("{}\n", *rng.pick(STRAY)));
            "stray_at_end_of_line"
        }
        _ => {
            // capture / query oriented
            let extra = *rng.pick(&[" @extra", " @a @b", "? @q", "* @many", " (#eq? @x \"y\")", " @x.y", " @a @b @c @d", "+ @p @q @r @s"]);
            for t in toks.iter_mut() {
                if t == ")" {
                    t.push_str(extra);
                    break;
                }
            }
            "query_capture_edit"
        }
    };
    (toks.concat(), kind)
}

/// A scan over a long subject of multi-byte characters whose arm fails at run time: the error
/// context quotes the scanned text and the arm, whatever their length and byte alignment.
fn failing_scan_arm(rng: &mut Rng) -> String {
    const CH: &[&str] = &["a", "é", "日", "😀", "ß", "b", " "];
    let n = rng.range(10, 90);
    let subject: String = (0..n).map(|_| *rng.pick(CH)).collect();
    let re = *rng.pick(&[".", "[^x]", "(.)(.)?", "\\S+", "..?.?"]);
    let fail = *rng.pick(&[
        "node n attr (n) x = (plus 1 \"a\")",
        "print (no-such-function)",
        "edge \"s\" -> (node)",
        "node n attr (n) x = $7",
        "node n attr (n) a = 1 attr (n) a = 2",
        "let v = (format \"{}\")",
    ]);
    let arms = if rng.chance(1, 3) {
        format!("\"{}\" {{ scan $0 {{ \"{}\" {{ {} }} }} }}", re, re, fail)
    } else {
        format!("\"{}\" {{ {} }}", re, fail)
    };
    if rng.chance(1, 2) {
        format!("(module) {{ scan \"{}\" {{ {} }} }}", subject, arms)
    } else {
        format!("(module) {{ let s = \"{}\" scan s {{ {} }} }}", subject, arms)
    }
}

pub fn nesting_depth(s: &str) -> usize {
    let mut d: i64 = 0;
    let mut max = 0;
    for c in s.chars() {
        match c {
            '(' | '[' | '{' => {
                d += 1;
                max = max.max(d);
            }
            ')' | ']' | '}' => d -= 1,
            _ => {}
        }
    }
    max.max(0) as usize
}

fn shorthand_cycle(file: &tsg::File) -> bool {
    let names: HashSet<String> = file.shorthands.iter().map(|s| s.name.as_str().to_string()).collect();
    let mut edges: HashMap<String, Vec<String>> = HashMap::new();
    for s in file.shorthands.iter() {
        let v: Vec<String> = s.attributes.iter().map(|a| a.name.as_str().to_string()).filter(|n| names.contains(n)).collect();
        edges.insert(s.name.as_str().to_string(), v);
    }
    // DFS cycle detection
    fn visit(n: &str, edges: &HashMap<String, Vec<String>>, state: &mut HashMap<String, u8>) -> bool {
        match state.get(n) {
            Some(1) => return true,
            Some(2) => return false,
            _ => {}
        }
        state.insert(n.to_string(), 1);
        for m in edges.get(n).cloned().unwrap_or_default() {
            if visit(&m, edges, state) {
                return true;
            }
        }
        state.insert(n.to_string(), 2);
        false
    }
    let mut state = HashMap::new();
    names.iter().any(|n| visit(n, &edges, &mut state))
}

fn shorthand_has_capture(file: &tsg::File) -> bool {
    fn has(e: &tsg::Expression) -> bool {
        use tsg::Expression as E;
        match e {
            E::Capture(_) => true,
            E::ListLiteral(l) => l.elements.iter().any(has),
            E::SetLiteral(l) => l.elements.iter().any(has),
            E::ListComprehension(c) => has(&c.element) || has(&c.value),
            E::SetComprehension(c) => has(&c.element) || has(&c.value),
            E::Call(c) => c.parameters.iter().any(has),
            E::Variable(tsg::Variable::Scoped(s)) => has(&s.scope),
            _ => false,
        }
    }
    file.shorthands.iter().any(|s| s.attributes.iter().any(|a| has(&a.value)))
}

/// does tree-sitter report a match of some stanza's pattern without a node for the appended
/// full-match capture? (known finding: the executors `expect` one)
fn match_without_root(file: &tsg::File, tree: &tree_sitter::Tree, source: &str) -> bool {
    for st in &file.stanzas {
        let mut cursor = tree_sitter::QueryCursor::new();
        let mut ms = cursor.matches(&st.query, tree.root_node(), source.as_bytes());
        while let Some(m) = ms.next() {
            if m.nodes_for_capture_index(st.full_match_stanza_capture_index as u32).next().is_none() {
                return true;
            }
        }
    }
    false
}

fn classify_exec_panic(p: &PanicInfo, file: &tsg::File, tree: &tree_sitter::Tree, source: &str) -> String {
    if (p.message.contains("missing full capture") || p.message.contains("missing capture for full match")) && match_without_root(file, tree, source) {
        return "C05:panic:match-without-full-match-node".into();
    }
    if p.message.contains("unreachable") && p.location.contains("execution.rs") && shorthand_has_capture(file) {
        return "C05:panic:capture-inside-shorthand".into();
    }
    format!("C05:exec-panic:{}", p.site_file())
}

const DIRECTED: &[(&str, &str, &str)] = &[
    ("three_captures_on_root", "(identifier) @a @b @c { node n attr (n) x = @a, y = @b, z = @c }", "x = y\n"),
    ("quantified_root", "(identifier)* @xs { node n attr (n) x = @xs }", "x = y\n"),
    ("capture_in_shorthand", "attribute sh = v => a = @c\n(identifier) @c { node n attr (n) sh = 1 print @c }", "x\n"),
    ("shorthand_cycle", "attribute sh = v => sh = v\n(module) { node n attr (n) sh = 1 }", "pass\n"),
    ("huge_integer", "(module) { node n attr (n) v = 99999999999 }", "pass"),
    ("huge_regex_capture", "(module) { scan \"a\" { \"a\" { print $99999999999999999999999 } } }", "pass"),
    ("lazy_regex_capture_out_of_range", "(module) { node n attr (n) v = $5 scan \"a\" { \"(a)\" { attr (n) w = $3 } } }", "pass"),
    ("plus_overflow", "(module) { node n attr (n) v = (plus 4294967295 1) }", "pass"),
    ("error_excerpt_after_multibyte", "(module) { node n attr (n) a = \"日本語日本語\", b = (no-such \"é\") }", "é = 1"),
    ("check_error_after_multibyte", "(module) { let s = \"日本語日本語日本語\" print undefined_variable }", "pass"),
    ("parse_error_after_multibyte", "(module) { let s = \"日本語日本語日本語\" let = }", "pass"),
    ("empty_file", "", "pass"),
    ("only_comment", "; nothing", "pass"),
    ("unterminated_string", "(module) { print \"abc", "pass"),
    ("unterminated_query", "(module", "pass"),
    ("lone_brace", "{", "pass"),
    ("nul_char", "(module) { print \"\0\" }", "pass"),
    ("scoped_loop_variable", "(identifier) @x { for @x.v in [1] { print @x.v } }", "x = y\n"),
    ("scoped_set_target", "(identifier) @x { var @x.v = 1 set @x.v = 2 node n attr (n) v = @x.v }", "x = y\n"),
    ("mutually_recursive_scoped_variables", "(identifier) @x { let @x.a = @x.b let @x.b = @x.a node n attr (n) v = @x.a }", "x = y\n"),
    ("self_recursive_local", "(identifier) @x { node n attr (n) v = @x.a }\n(identifier) @x { let @x.a = @x.a }", "x = y\n"),
    ("scope_read_through_same_name", "(module (expression_statement (assignment left: (identifier) @x))) @m { let @m.a = @x let @m.a.a = 1 node n attr (n) v = @x.a }", "x = y\n"),
    ("scope_is_string", "(module) @m { let s = \"text\" let s.a = 1 }", "pass\n"),
    ("scoped_definition_while_forcing", "(identifier) @x { let @x.a = 1 }\n(identifier) @x { node n attr (n) v = @x.a let (first-of @x.a).b = 2 }", "x = y\n"),
    ("free_variable_in_shorthand_body", "attribute sh = v => label = (format \"{}{}\" prefix v)\n(identifier) @x { let prefix = \"p:\" node n attr (n) sh = (source-text @x) }", "x = y\n"),
    ("free_loop_variable_in_shorthand_body", "attribute sh = v => label = [v, i]\n(identifier) @x { node n for i in [1, 2] { attr (n) sh = i } }", "x\n"),
    ("calls_without_arguments_inside_calls", "(module) { node n attr (n) v = (plus 1 (plus)), w = (concat [1] (concat)), x = (and #true (or)), y = (format \"{}{}\" 1 (plus)) let zero = (plus) attr (n) z = (plus 41 1 zero) }", "pass\n"),
    ("empty_list_rendered", "(module (_)* @stmts) @m { node n attr (n) v = (format \"<{}>\" @stmts), w = (join [[], [1]]) print @stmts attr (@stmts) k = 1 }", ""),
    ("list_of_fresh_nodes_used_twice", "(module) { let kids = [ (node), (node) ] for k in kids { attr (k) a = 1 } for k in kids { attr (k) b = 2 } node hub for k in kids { edge hub -> k } for k in kids { edge hub -> k } }", "pass\n"),
    ("conflict_in_a_shorthand_attribute_that_is_not_the_last", "attribute sh = v => a = v, b = 1\n(module) { node n attr (n) a = 0 attr (n) sh = 5 }", "pass\n"),
    ("failing_argument_of_a_variadic_call", "(module) { node n attr (n) v = (plus 1 (plus 4294967295 1)), w = (and #true (not 5)), x = (concat [1] (concat 5)), y = (join [1, 2, 3] (format \"{}\")) }", "pass\n"),
    ("failing_call_in_print_argument", "(identifier) @id { print (plus @id 1), (no-such-function @id) print @id.never }", "x = y\n"),
    ("four_captures_on_a_plus_quantified_node", "(identifier)+ @a @b @c @d { node n attr (n) la = (length @a), ld = (length @d) for x in @d { print x } }", "x = y\nz\n"),
    ("four_captures_on_an_inner_plus_quantified_node", "(module (expression_statement (identifier)+ @a @b @c @d)) { node n attr (n) a = (length @a), b = (length @b), c = (length @c), d = (length @d) for x in @d { print x } }", "x\ny\nz\n"),
    ("four_captures_on_an_inner_node", "(module (expression_statement (identifier) @a @b @c @d)) { node n attr (n) a = @a, d = @d }", "x\ny\n"),
    ("four_captures_on_an_inner_optional_node", "(return_statement (identifier)? @a @b @c @d) { node n attr (n) a = @a, d = @d if some @d { print @d } }", "def f():\n    return x\n    return\n"),
    ("plus_after_capture_of_optional_pattern", "(assignment left: (_) @lhs right: (_)? @rhs+) { node n attr (n) l = (source-text @lhs) print @rhs }", "with a as b, c as d:\n    match = b\nwhile x: x = x - 1\n"),
    ("later_stanzas_begin_with_bare_words", "(module) { node n }\n_ @any { node n attr (n) k = (node-type @any) }\n\"pass\" @kw { node n attr (n) t = (source-text @kw) }\n[(identifier) (integer)] @leaf { node n attr (n) l = (source-text @leaf) }\nleft: (identifier) @x { node n attr (n) lx = (source-text @x) }\n_ @w { node n attr (n) w = (start-row @w) }", "x = 1\npass\n"),
    ("unknown_field_name_at_start_of_query", "(module) { node n }\n  nosuchfield: (identifier) @x { node n }", "x = 1\n"),
    ("unknown_field_name_as_first_byte_of_file", "nosuchfield: (identifier) @x { node n }", "x = 1\n"),
    ("long_multibyte_string_constants", "(module) { node n attr (n) a = \"日本語日本語日本語日本語日本語日本語日本語日本語日本語日本語日本語日本語\", b = \"x日本語日本語日本語日本語日本語日本語日本語日本語日本語日本語日本語日本語\", c = \"xy日本語日本語日本語日本語日本語日本語日本語日本語日本語日本語日本語日本語\" print \"日本語日本語日本語日本語日本語日本語日本語日本語日本語日本語日本語日本語\", \"é日本語日本語日本語日本語日本語日本語日本語日本語日本語日本語日本語日本語\" let s = \"xyz😀日本語日本語日本語日本語日本語日本語日本語日本語日本語日本語日本語日本語\" scan \"日本語日本語日本語日本語日本語日本語日本語日本語日本語日本語日本語日本語\" { \"日本語日本語日本語日本語日本語日本語日本語日本語日本語日本語日本語日本語\" { print $0 } } }", "pass\n"),
    ("plus_on_top_of_star_quantifier", "(identifier)*+ @xs { node n attr (n) x = @xs }", "x = y\n"),
];

/// A directed or seed text that neither hangs nor hits a known panic, with a source (for C02's
/// strict/lazy differential).
pub fn differential_text(rng: &mut Rng) -> (&'static str, String, String) {
    // known panics / hangs, and programs outside the order-insensitive fragment (mutable scoped
    // variables, a scope that is read through the variable being defined)
    const SKIP: &[&str] = &["capture_in_shorthand", "shorthand_cycle", "plus_on_top_of_star_quantifier", "plus_after_capture_of_optional_pattern", "scoped_set_target", "scope_read_through_same_name", "scoped_definition_while_forcing"];
    loop {
        if rng.chance(1, 4) {
            return ("seed", (*rng.pick(SEEDS)).to_string(), py::gen_any_source(rng, 6, 20));
        }
        let (name, t, s) = *rng.pick(DIRECTED);
        if SKIP.contains(&name) {
            continue;
        }
        let source = if rng.chance(1, 2) { s.to_string() } else { py::gen_any_source(rng, 6, 20) };
        return (name, t.to_string(), source);
    }
}

fn render_load_error(e: &tree_sitter_graph::ParseError, text: &str, out: &mut Out, case: &serde_json::Value) -> bool {
    let r = catch(|| {
        let a = format!("{}", e);
        let b = format!("{}", e.display_pretty(Path::new("rules.tsg"), text));
        let c = format!("{:?}", e);
        a.len() + b.len() + c.len()
    });
    out.eval();
    if let Err(p) = r {
        out.violation(&format!("C05:render-parse-error-panic:{}", p.site_file()), &format!("rendering a load error panicked at {}: {}", p.location, p.message), case.clone());
        return false;
    }
    out.feat("rendered_load_error");
    true
}

impl Prop for C05 {
    fn id(&self) -> &'static str {
        "C05"
    }
    fn directed(&self) -> usize {
        DIRECTED.len()
    }
    fn cases(&self, cfg: &RunCfg) -> usize {
        match cfg.tier {
            Tier::Quick => 2200,
            Tier::Thorough => 120_000,
        }
    }
    fn run_case(&self, cfg: &RunCfg, idx: usize, rng: &mut Rng, out: &mut Out) {
        enable_trace_logging();
        let mut model_bound: Option<u64> = None;
        let (text, source, globals, label): (String, String, BTreeMap<String, crate::model::value::MVal>, String) = if idx < DIRECTED.len() {
            let (name, t, s) = DIRECTED[idx];
            if name == "shorthand_cycle" && (cfg.shard != 0 || std::env::var("TSGMON_VARIANT").is_ok()) {
                // one process death per run is enough to keep the known finding visible
                return;
            }
            (t.to_string(), s.to_string(), BTreeMap::new(), format!("directed:{}", name))
        } else {
            let mut globals = BTreeMap::new();
            let base = match rng.below(10) {
                0 | 1 | 2 | 3 | 4 => {
                    let mut c = GenCfg::strict_full();
                    c.fault_pct = 20;
                    c.max_stanzas = 4;
                    let mut p = gen_program(rng, &c);
                    globals = p.globals.clone();
                    if rng.chance(1, 2) {
                        print_wild(&mut p.file, rng).0
                    } else {
                        print_house(&mut p.file)
                    }
                }
                5 | 6 | 7 => {
                    let mut f = {
                        let mut g = FreeGen { rng, caps: vec![] };
                        g.file()
                    };
                    print_wild(&mut f, rng).0
                }
                8 => failing_scan_arm(rng),
                _ => (*rng.pick(SEEDS)).to_string(),
            };
            globals.entry("filename".into()).or_insert_with(|| crate::model::value::MVal::str("src/pkg/__init__.py"));
            let k = match rng.below(8) {
                0 => 0,
                1 | 2 | 3 => 1,
                4 | 5 => 2,
                _ => rng.range(3, 5),
            };
            let mut t = base;
            let mut kinds = Vec::new();
            for _ in 0..k {
                let (nt, kind) = mutate(rng, &t);
                t = nt;
                kinds.push(kind);
            }
            for kd in &kinds {
                out.feat(&format!("mutation:{}", kd));
            }
            if k == 0 {
                out.feat("unmutated");
                model_bound = Some(2_000_000);
            }
            (t, py::gen_any_source(rng, 8, 30), globals, format!("random:{}", kinds.join("+")))
        };
        if nesting_depth(&text) > 64 {
            out.feat("skipped_nesting_over_64");
            return;
        }
        let case = json!({"dsl": text, "source": source, "kind": label});
        if std::env::var("TSGMON_DUMP").is_ok() {
            eprintln!("--- dsl\n{}\n--- source\n{}\n--- kind {}", text, source, label);
        }
        // texts with two quantifiers in a row are first loaded in a process of their own: a hang
        // there is attributed by sampling the child's stack
        if stacked_quantifiers(&text) {
            out.feat("load_probed_in_subprocess");
            match probe_load(&text) {
                Probe::Finished => {}
                Probe::Hung(stack) => {
                    out.eval();
                    if stack.trim().is_empty() {
                        // the hang is real but cannot be attributed without the stack sample
                        out.inconclusive("load-probe hung and its stack could not be sampled (gdb unavailable?)");
                        return;
                    }
                    let sig = if stack.contains("ts_query_new") { "C05:hang:tree-sitter-query-compiler" } else { "C05:hang:load" };
                    let mut c = case.clone();
                    c["stack_of_hung_process"] = json!(crate::util::trunc(&stack, 1500));
                    out.violation(sig, "File::from_str did not return within 4 s or grew past 1.5 GB (median load time is below 1 ms)", c);
                    return;
                }
                Probe::Unavailable => out.feat("load_probe_unavailable"),
            }
            // the same for running the queries: tree-sitter's query cursor can grow without bound
            // on such patterns
            match probe_exec(&text, &source) {
                Probe::Finished => {}
                Probe::Hung(stack) => {
                    out.eval();
                    if stack.trim().is_empty() {
                        out.inconclusive("exec-probe hung and its stack could not be sampled (gdb unavailable?)");
                        return;
                    }
                    let sig = if stack.contains("ts_query_cursor") { "C05:hang:tree-sitter-query-cursor" } else if stack.contains("ts_query_new") { "C05:hang:tree-sitter-query-compiler" } else { "C05:hang:execute" };
                    let mut c = case.clone();
                    c["stack_of_hung_process"] = json!(crate::util::trunc(&stack, 1500));
                    out.violation(sig, "File::execute did not return within 4 s or grew past 1.5 GB", c);
                    return;
                }
                Probe::Unavailable => out.feat("exec_probe_unavailable"),
            }
        }
        if std::env::var("TSGMON_DUMP_CASE").is_ok() {
            eprintln!("CASE {} label={} dsl={:?} source={:?}", idx, label, text, source);
        }
        // (a) loading
        let loaded = exec::load(&text);
        out.eval();
        let file = match loaded {
            Loaded::Panic(p) => {
                out.violation(&format!("C05:load-panic:{}", p.site_file()), &format!("File::from_str panicked at {}: {}", p.location, p.message), case);
                return;
            }
            Loaded::Err(e) => {
                out.feat("load:error");
                out.feat(&format!("load_error:{}", exec_variant(&e)));
                if render_load_error(&e, &text, out, &case) {
                    out.nontrivial(hash_str(&text));
                }
                return;
            }
            Loaded::Ok(f) => f,
        };
        out.feat("load:ok");
        if shorthand_cycle(&file) && !label.starts_with("directed:shorthand_cycle") {
            out.feat("skipped_execution_shorthand_cycle");
            return;
        }
        // (b) execution in both modes, (c) rendering of every error
        let tree = parse_python(&source);
        let ti = TreeInfo::new(&tree);
        let functions = stdlib();
        // every other case also runs with the debug-attribute configuration, the three attribute
        // names taken from the names the file itself assigns (so that the executor's attributes
        // and the program's meet on one node or edge)
        let own_names: Vec<String> = {
            let re = regex::Regex::new(r"([A-Za-z_][A-Za-z0-9_-]*)\s*=").unwrap();
            let mut v: Vec<String> = Vec::new();
            for c in re.captures_iter(&text) {
                let n = c[1].to_string();
                if !v.contains(&n) {
                    v.push(n);
                }
            }
            v
        };
        let h = hash_str(&text) as usize;
        let pick = |k: usize, fallback: &str| -> String {
            if own_names.is_empty() {
                fallback.to_string()
            } else {
                own_names[(h / (k + 1) + k) % own_names.len()].clone()
            }
        };
        let (dl, dv, dm) = (pick(0, "debug_location"), pick(1, "debug_variable"), pick(2, "debug_match"));
        let with_debug = h % 2 == 0;
        let configs: &[(bool, bool)] = if with_debug { &[(false, false), (true, false), (false, true), (true, true)] } else { &[(false, false), (true, false)] };
        for &(lazy, debug) in configs {
            let mode = if lazy { "lazy" } else { "strict" };
            let mut opts = ExecOpts::new(lazy);
            if debug {
                opts.debug_attrs = Some((&dl, &dv, &dm));
                out.feat(&format!("exec:{}:with_debug_attributes_named_like_the_file's_own", mode));
            }
            opts.poll_limit = 2_000_000;
            let rep = exec::execute(&file, &tree, &source, &ti, &globals, &functions, &opts);
            out.eval();
            if rep.poll_limit_hit {
                if model_bound.is_some() {
                    out.violation(&format!("C05:no-termination:{}", mode), "an unmutated generated program exceeded 2,000,000 cancellation polls", case.clone());
                    return;
                }
                out.inconclusive("poll budget exhausted on a mutated program");
                continue;
            }
            match &rep.real {
                Real::Panic(p) => {
                    let sig = classify_exec_panic(p, &file, &tree, &source);
                    out.violation(&sig, &format!("{} execution panicked at {}: {}", mode, p.location, p.message), case.clone());
                    return;
                }
                Real::Unreadable(_) => out.feat("unreadable_graph_ignored_here"),
                Real::Graph(_) => out.feat(&format!("exec:{}:graph", mode)),
                Real::Error(info, e) => {
                    out.feat(&format!("exec:{}:error", mode));
                    out.feat(&format!("exec_error:{}", info.root));
                    let r = catch(|| {
                        let a = format!("{}", e);
                        let b = format!("{}", e.display_pretty(Path::new("src/test.py"), &source, Path::new("rules.tsg"), &text));
                        let c = format!("{:?}", e);
                        a.len() + b.len() + c.len()
                    });
                    out.eval();
                    if let Err(p) = r {
                        out.violation(&format!("C05:render-execution-error-panic:{}", p.site_file()), &format!("rendering an execution error panicked at {}: {}", p.location, p.message), case.clone());
                        return;
                    }
                    out.feat("rendered_execution_error");
                }
            }
        }
        if ti.has_error() {
            out.feat("tree_with_errors");
        }
        if !source.is_ascii() {
            out.feat("non_ascii_source");
        }
        if !text.is_ascii() {
            out.feat("non_ascii_dsl");
        }
        out.nontrivial(mix(&[hash_str(&text), hash_str(&source)]));
        if out.want_sample() && text.len() < 700 && idx >= DIRECTED.len() {
            out.sample(case);
        }
    }
}

/// two quantifier characters in a row (captures and blanks may sit in between)
fn stacked_quantifiers(text: &str) -> bool {
    let cs: Vec<char> = text.chars().collect();
    let mut i = 0;
    while i < cs.len() {
        if cs[i] == '*' || cs[i] == '?' || cs[i] == '+' || cs[i] == ')' && false {
            // skip blanks, closing parens/brackets and captures
            let mut j = i + 1;
            loop {
                while j < cs.len() && (cs[j].is_whitespace() || cs[j] == ')' || cs[j] == ']') {
                    j += 1;
                }
                if j < cs.len() && cs[j] == '@' {
                    j += 1;
                    while j < cs.len() && (cs[j].is_alphanumeric() || cs[j] == '_' || cs[j] == '-' || cs[j] == '.') {
                        j += 1;
                    }
                    continue;
                }
                break;
            }
            if j < cs.len() && (cs[j] == '*' || cs[j] == '?' || cs[j] == '+') {
                return true;
            }
        }
        i += 1;
    }
    false
}

enum Probe {
    Finished,
    Hung(String),
    Unavailable,
}

fn probe_load(text: &str) -> Probe {
    probe_child(&["load-probe"], text)
}

/// load and execute in a child process, strict and then lazy (lazy evaluation runs ONE query
/// merged from all stanzas over the whole tree before anything else, so it can meet a runaway
/// pattern that strict evaluation never reaches because an earlier stanza fails)
fn probe_exec(text: &str, source: &str) -> Probe {
    let input = json!({"dsl": text, "source": source}).to_string();
    match probe_child(&["exec-probe", "-", "strict"], &input) {
        Probe::Finished => probe_child(&["exec-probe", "-", "lazy"], &input),
        other => other,
    }
}

fn probe_child(args: &[&str], text: &str) -> Probe {
    use std::io::Write;
    use std::process::{Command, Stdio};
    let exe = match std::env::current_exe() {
        Ok(e) => e,
        Err(_) => return Probe::Unavailable,
    };
    let mut child = match Command::new(exe).args(args).stdin(Stdio::piped()).stdout(Stdio::null()).stderr(Stdio::null()).spawn() {
        Ok(c) => c,
        Err(_) => return Probe::Unavailable,
    };
    if let Some(mut stdin) = child.stdin.take() {
        let _ = stdin.write_all(text.as_bytes());
    }
    let t0 = std::time::Instant::now();
    loop {
        match child.try_wait() {
            Ok(Some(_)) => return Probe::Finished,
            Ok(None) => {}
            Err(_) => return Probe::Unavailable,
        }
        if t0.elapsed().as_secs_f64() > 4.0 {
            break;
        }
        // a loader that allocates without bound is stopped (and its stack sampled) long before
        // it can exhaust the machine
        let resident = std::fs::read_to_string(format!("/proc/{}/statm", child.id())).ok().and_then(|t| t.split_whitespace().nth(1).and_then(|x| x.parse::<u64>().ok())).unwrap_or(0) * 4096;
        if resident > 1_500_000_000 {
            break;
        }
        std::thread::sleep(std::time::Duration::from_millis(5));
    }
    // sample the stack of the hung child
    let stack = Command::new("gdb")
        .args(["-p", &child.id().to_string(), "-batch", "-ex", "bt 30"])
        .stderr(Stdio::null())
        .output()
        .map(|o| String::from_utf8_lossy(&o.stdout).lines().filter(|l| l.starts_with('#')).map(|l| l.split(" at ").next().unwrap_or(l).to_string()).collect::<Vec<_>>().join(" | "))
        .unwrap_or_default();
    let _ = child.kill();
    let _ = child.wait();
    Probe::Hung(stack)
}

fn exec_variant(e: &tree_sitter_graph::ParseError) -> String {
    let d = format!("{:?}", e);
    d.split(|c: char| c == '(' || c == ' ' || c == '{').next().unwrap_or("").to_string()
}
