//! Python source generator (grammar based) plus fault injection for trees with ERROR/MISSING
//! nodes, plus a few hand-written corpus sources.

use crate::util::Rng;

const IDENTS: &[&str] = &[
    "x", "y", "z", "foo", "bar", "baz", "self", "data", "items", "n", "i", "value", "é", "名前",
    "a1", "b_2", "result", "os", "sys", "path", "match", "print", "type",
];
const STRINGS: &[&str] = &[
    "\"\"", "\"a\"", "'b c'", "\"two  blanks\"", "\"héllo\"", "\"日本\"", "\"a/b/c.py\"", "\"x{}y\"", "\"😀\"",
];
const BINOPS: &[&str] = &["+", "-", "*", "/", "%", "//", "<<", "&", "|"];
const CMPOPS: &[&str] = &["==", "!=", "<", ">", "<=", ">=", "in", "is"];

pub struct PyGen<'r> {
    pub rng: &'r mut Rng,
    pub max_depth: usize,
}

impl<'r> PyGen<'r> {
    pub fn ident(&mut self) -> String {
        self.rng.pick(IDENTS).to_string()
    }

    pub fn expr(&mut self, depth: usize) -> String {
        let leaf = depth >= self.max_depth || self.rng.chance(2, 5);
        if leaf {
            return match self.rng.below(6) {
                0 | 1 | 2 => self.ident(),
                3 => format!("{}", self.rng.below(1000)),
                4 => self.rng.pick(STRINGS).to_string(),
                _ => ["True", "False", "None"][self.rng.below(3)].to_string(),
            };
        }
        match self.rng.below(12) {
            0 => format!("{}.{}", self.expr(depth + 1), self.ident()),
            1 | 2 => {
                let n = self.rng.below(4);
                let args: Vec<String> = (0..n).map(|_| self.expr(depth + 1)).collect();
                let f = if self.rng.chance(1, 3) {
                    format!("{}.{}", self.ident(), self.ident())
                } else {
                    self.ident()
                };
                format!("{}({})", f, args.join(", "))
            }
            3 => format!(
                "{} {} {}",
                self.expr(depth + 1),
                self.rng.pick(BINOPS),
                self.expr(depth + 1)
            ),
            4 => format!(
                "{} {} {}",
                self.expr(depth + 1),
                self.rng.pick(CMPOPS),
                self.expr(depth + 1)
            ),
            5 => {
                let n = self.rng.below(4);
                let xs: Vec<String> = (0..n).map(|_| self.expr(depth + 1)).collect();
                format!("[{}]", xs.join(", "))
            }
            6 => {
                let n = self.rng.range(2, 3);
                let xs: Vec<String> = (0..n).map(|_| self.expr(depth + 1)).collect();
                format!("({})", xs.join(", "))
            }
            7 => {
                let n = self.rng.below(3);
                let xs: Vec<String> = (0..n)
                    .map(|_| format!("{}: {}", self.expr(depth + 1), self.expr(depth + 1)))
                    .collect();
                format!("{{{}}}", xs.join(", "))
            }
            8 => format!("{}[{}]", self.ident(), self.expr(depth + 1)),
            9 => format!("not {}", self.expr(depth + 1)),
            10 => format!(
                "{} {} {}",
                self.expr(depth + 1),
                ["and", "or"][self.rng.below(2)],
                self.expr(depth + 1)
            ),
            _ => format!("({})", self.expr(depth + 1)),
        }
    }

    fn block(&mut self, indent: usize, depth: usize, out: &mut String) {
        let n = self.rng.range(1, 3);
        for _ in 0..n {
            self.stmt(indent, depth, out);
        }
    }

    pub fn stmt(&mut self, indent: usize, depth: usize, out: &mut String) {
        let pad = "    ".repeat(indent);
        let simple = depth >= 3 || self.rng.chance(3, 5);
        if simple {
            match self.rng.below(10) {
                0 | 1 | 2 => {
                    let lhs = if self.rng.chance(1, 4) {
                        format!("{}.{}", self.ident(), self.ident())
                    } else {
                        self.ident()
                    };
                    out.push_str(&format!("{}{} = {}\n", pad, lhs, self.expr(0)));
                }
                3 | 4 => out.push_str(&format!("{}{}\n", pad, self.expr(0))),
                5 => out.push_str(&format!("{}import {}.{}\n", pad, self.ident(), self.ident())),
                6 => {
                    let n = self.rng.range(1, 3);
                    let names: Vec<String> = (0..n).map(|_| self.ident()).collect();
                    out.push_str(&format!(
                        "{}from {}.{} import {}\n",
                        pad,
                        self.ident(),
                        self.ident(),
                        names.join(", ")
                    ));
                }
                7 => out.push_str(&format!("{}pass\n", pad)),
                8 => {
                    if self.rng.chance(1, 2) {
                        out.push_str(&format!("{}return {}\n", pad, self.expr(1)));
                    } else {
                        out.push_str(&format!("{}return\n", pad));
                    }
                }
                _ => out.push_str(&format!("{}{} += {}\n", pad, self.ident(), self.expr(1))),
            }
            return;
        }
        match self.rng.below(7) {
            0 | 1 => {
                let n = self.rng.below(4);
                let ps: Vec<String> = (0..n).map(|_| self.ident()).collect();
                out.push_str(&format!("{}def {}({}):\n", pad, self.ident(), ps.join(", ")));
                self.block(indent + 1, depth + 1, out);
            }
            2 => {
                if self.rng.chance(1, 2) {
                    out.push_str(&format!("{}class {}({}):\n", pad, self.ident(), self.ident()));
                } else {
                    out.push_str(&format!("{}class {}:\n", pad, self.ident()));
                }
                self.block(indent + 1, depth + 1, out);
            }
            3 => {
                out.push_str(&format!("{}if {}:\n", pad, self.expr(1)));
                self.block(indent + 1, depth + 1, out);
                if self.rng.chance(1, 2) {
                    out.push_str(&format!("{}else:\n", pad));
                    self.block(indent + 1, depth + 1, out);
                }
            }
            4 => {
                out.push_str(&format!("{}for {} in {}:\n", pad, self.ident(), self.expr(1)));
                self.block(indent + 1, depth + 1, out);
            }
            5 => {
                out.push_str(&format!("{}while {}:\n", pad, self.expr(1)));
                self.block(indent + 1, depth + 1, out);
            }
            _ => {
                out.push_str(&format!("{}try:\n", pad));
                self.block(indent + 1, depth + 1, out);
                out.push_str(&format!("{}except {}:\n", pad, self.ident()));
                self.block(indent + 1, depth + 1, out);
            }
        }
    }
}

pub const CORPUS: &[&str] = &[
    "pass",
    "",
    "x",
    "x = 1\n",
    "from one.two import d, e.c\nimport three\nprint(d, e.c)\nprint three.f\n",
    "def f(a, b):\n    return a + b\n\nclass C(B):\n    def m(self):\n        self.x = f(1, 2)\n        return self.x\n",
    "foo(bar(baz(x, y), z), [1, 2, 3])\n",
    "a.b.c.d = e.f(g.h)\n",
    "if x:\n    y = 1\nelse:\n    y = 2\nfor i in items:\n    print(i)\n",
    "é = \"héllo\"\n名前 = é + \"日本\"\nprint(名前)\n",
    "x = [1, [2, [3, [4, [5]]]]]\n",
    "def outer():\n    def inner():\n        def innermost():\n            return x\n        return innermost\n    return inner\n",
    "a = 1\nb = 2\nc = 3\nd = 4\ne = 5\nf = 6\ng = 7\nh = 8\n",
    "x = (1,\n     2,\n     3)\ny = {\n  'k': v,\n}\n",
    "f(x)(y)(z)\n",
    // nodes whose kind is an alias in the grammar (soft keywords as identifiers, `as` targets,
    // bodies of one-line compound statements)
    "match = 1\nprint = match\nwith open(f) as g: pass\nif g: pass\ntype = print(match)\n",
    "with a as b, c as d:\n    match = b\nwhile x: x = x - 1\n",
    "a + b + c\nx.y.z(1)\nf()()\n",
    // comments are named children of whatever they sit in
    "f(a, # first\n  b)\n# top\nx = [1, # one\n     2]\ndef g(p, # p\n      q):\n    # body\n    return p\n",
    // MISSING nodes in field positions
    "for b in :\n    pass\nwith :\n    pass\nx = a[]\n",
    // carriage returns and tabs
    "a = 1\r\nb = 2\r\nc = \"x\"\r\n",
    "def f():\n\tx = (1, 2)\n\tif x:\n\t\treturn x\n",
];

/// Generate an error-free Python source with 0..max_stmts top-level statements.
pub fn gen_source(rng: &mut Rng, max_stmts: usize) -> String {
    if rng.chance(1, 6) {
        return rng.pick(CORPUS).to_string();
    }
    let n = rng.range(1, max_stmts.max(1));
    let mut out = String::new();
    let mut g = PyGen { rng, max_depth: 3 };
    for _ in 0..n {
        g.stmt(0, 0, &mut out);
    }
    out
}

const STRAY: &[&str] = &[")", "(", "]", "$", "?", "def", ":", "=", "..", "é", "'", "\"", "\\", "@@"];

/// Inject `faults` syntax faults into a source text (kept valid UTF-8).
pub fn inject_faults(rng: &mut Rng, source: &str, faults: usize) -> String {
    let mut s: Vec<char> = source.chars().collect();
    for _ in 0..faults {
        let pos = if s.is_empty() { 0 } else { rng.below(s.len() + 1) };
        match rng.below(6) {
            0 => {
                // delete a short range
                if !s.is_empty() {
                    let len = rng.range(1, 3).min(s.len() - pos.min(s.len() - 1));
                    let p = pos.min(s.len() - 1);
                    for _ in 0..len {
                        if p < s.len() {
                            s.remove(p);
                        }
                    }
                }
            }
            1 => {
                // duplicate a short range
                if !s.is_empty() {
                    let p = pos.min(s.len() - 1);
                    let len = rng.range(1, 4).min(s.len() - p);
                    let dup: Vec<char> = s[p..p + len].to_vec();
                    for (k, c) in dup.into_iter().enumerate() {
                        s.insert(p + len + k, c);
                    }
                }
            }
            2 | 3 => {
                let t: Vec<char> = rng.pick(STRAY).chars().collect();
                for (k, c) in t.into_iter().enumerate() {
                    s.insert((pos + k).min(s.len()), c);
                }
            }
            4 => {
                // fault at the very start or very end
                let t: Vec<char> = rng.pick(STRAY).chars().collect();
                if rng.chance(1, 2) {
                    for (k, c) in t.into_iter().enumerate() {
                        s.insert(k, c);
                    }
                } else {
                    s.extend(t);
                }
            }
            _ => {
                // unbalance a bracket: remove the first closing bracket after pos
                if let Some(off) = s[pos.min(s.len())..].iter().position(|c| *c == ')' || *c == ']' || *c == ':') {
                    s.remove(pos.min(s.len()) + off);
                }
            }
        }
    }
    s.into_iter().collect()
}

/// A source for general workloads: mostly clean, sometimes with syntax errors.
/// A tree that is several hundred levels deep: a left-deep operator chain (the leftmost operand
/// of n operands sits about n + 3 levels down), optionally inside nested calls.
pub fn deep_source(rng: &mut Rng) -> String {
    let n = rng.range(40, 300);
    let op = *rng.pick(&[" + ", " - ", " and ", "."]);
    let mut s = String::from("total = ");
    for i in 0..n {
        if i > 0 {
            s.push_str(op);
        }
        if op == "." {
            s.push_str(&format!("f{}", i));
        } else if rng.chance(1, 6) {
            s.push_str(&format!("g({}, \"p{}\")", i, i));
        } else {
            s.push_str(&format!("p{}", i));
        }
    }
    s.push('\n');
    if rng.chance(1, 3) {
        let d = rng.range(20, 120);
        s.push_str(&format!("{}x{}\n", "f(".repeat(d), ")".repeat(d)));
    }
    s
}

pub fn gen_any_source(rng: &mut Rng, max_stmts: usize, fault_pct: usize) -> String {
    if rng.chance(1, 80) {
        return deep_source(rng);
    }
    let src = gen_source(rng, max_stmts);
    if rng.chance(fault_pct, 100) {
        let n = rng.range(1, 4);
        inject_faults(rng, &src, n)
    } else {
        src
    }
}
