//! C04 – scoped variables follow syntax-node identity and inherit only when declared.
//! Scoped-heavy programs whose values identify the defining node; both modes are compared
//! with the reference model (identity-keyed store, nearest ancestor for inherited names).

use super::common::*;
use crate::gen::ast::*;
use crate::gen::print::print_house;
use crate::gen::py;
use crate::model::interp::{ErrClass, Outcome};
use crate::oracle::exec::{self, ExecOpts, Loaded, Real};
use crate::oracle::tree::{parse_python, TreeInfo};
use crate::util::{Out, Rng};
use crate::{Prop, RunCfg, Tier};
use serde_json::json;
use std::collections::BTreeMap;
use std::sync::atomic::Ordering;
use tree_sitter_graph::verif_hooks::{SYNTAX_NODES_REGISTERED, SYNTAX_NODE_ID_COLLISIONS};

pub struct C04;

const KINDS: &[(&str, &str, &str)] = &[
    // (kind, query, capture)
    ("module", "(module) @m", "m"),
    ("function_definition", "(function_definition) @f", "f"),
    ("class_definition", "(class_definition) @c", "c"),
    ("block", "(block) @b", "b"),
    ("call", "(call) @call", "call"),
    ("identifier", "(identifier) @id", "id"),
    ("expression_statement", "(expression_statement) @es", "es"),
    ("argument_list", "(argument_list) @al", "al"),
    ("attribute", "(attribute) @at", "at"),
    ("assignment", "(assignment) @asg", "asg"),
];

const NAMES: &[&str] = &["scope", "label", "env", "tag"];

// reader queries: (query, captures with quantifier suffix)
const READERS: &[(&str, &[(&str, &str)])] = &[
    ("(identifier) @x", &[("x", "")]),
    ("(call function: (_) @fn arguments: (argument_list) @args)", &[("fn", ""), ("args", "")]),
    ("(argument_list (_)* @items)", &[("items", "*")]),
    ("(assignment left: (_) @lhs right: (_)? @rhs)", &[("lhs", ""), ("rhs", "?")]),
    ("(expression_statement (_) @inner) @outer", &[("inner", ""), ("outer", "")]),
    ("(function_definition name: (identifier) @name body: (block) @body)", &[("name", ""), ("body", "")]),
    ("(return_statement (_) @value)", &[("value", "")]),
    ("(attribute object: (_) @obj attribute: (identifier) @field)", &[("obj", ""), ("field", "")]),
    ("(pass_statement) @p", &[("p", "")]),
    ("(block (_)+ @stmts)", &[("stmts", "+")]),
    ("(module (_) @top)", &[("top", "")]),
    ("(binary_operator left: (_) @l right: (_) @r)", &[("l", ""), ("r", "")]),
];

fn node_value(cap: &str, name: &str) -> GExpr {
    // identifies the defining node: name, kind, start and end position
    GExpr::List(vec![
        GExpr::str(name),
        GExpr::call("node-type", vec![GExpr::cap(cap)]),
        GExpr::call("start-row", vec![GExpr::cap(cap)]),
        GExpr::call("start-column", vec![GExpr::cap(cap)]),
        GExpr::call("end-row", vec![GExpr::cap(cap)]),
        GExpr::call("end-column", vec![GExpr::cap(cap)]),
    ])
}

struct Plan {
    file: GFile,
    features: Vec<&'static str>,
    /// `var` on scoped variables: lazy evaluation rejects them by design, so only strict runs
    strict_only: bool,
}

/// A value handed down the tree under ONE name: every node's variable is computed from the
/// same-named variable of its parent (read while the child's own is being evaluated).
fn build_passed_down(rng: &mut Rng) -> Plan {
    let st = |query: &str, stmts: Vec<GStmt>| Item::Stanza(GStanza { query: query.into(), pool: None, stmts, loc: Loc::default() });
    let derived = |parent: &str, me: &str, list: bool| -> GExpr {
        if list {
            GExpr::List(vec![GExpr::scoped(GExpr::cap(parent), "zz_path"), GExpr::call("node-type", vec![GExpr::cap(me)])])
        } else {
            GExpr::call("format", vec![GExpr::str("{}/{}"), GExpr::scoped(GExpr::cap(parent), "zz_path"), GExpr::call("node-type", vec![GExpr::cap(me)])])
        }
    };
    let list = rng.chance(1, 3);
    let inherit = rng.chance(1, 2);
    let mut items = Vec::new();
    if inherit {
        items.push(Item::Inherit("zz_path".into()));
    }
    items.push(st("(module) @m", vec![stmt(StmtKind::Let(GVar::s(GExpr::cap("m"), "zz_path"), GExpr::str("root")))]));
    items.push(st("(module (_) @child) @m", vec![stmt(StmtKind::Let(GVar::s(GExpr::cap("child"), "zz_path"), derived("m", "child", list)))]));
    // with `inherit`, the grandchildren are sometimes left to inherit their parent's value
    if !inherit || rng.chance(1, 2) {
        items.push(st("(module (_ (_) @grand) @child)", vec![stmt(StmtKind::Let(GVar::s(GExpr::cap("grand"), "zz_path"), derived("child", "grand", list)))]));
    }
    let reader = |cap: &str| vec![stmt(StmtKind::Node(GVar::u("n"))), stmt(StmtKind::AttrNode(GExpr::var("n"), vec![GAttr { name: "path".into(), value: Some(GExpr::scoped(GExpr::cap(cap), "zz_path")) }, GAttr { name: "of".into(), value: Some(GExpr::cap(cap)) }]))];
    items.push(st("(module (_ (_) @g))", reader("g")));
    items.push(st("(module (_) @c)", reader("c")));
    Plan { file: GFile { items }, features: vec!["value_passed_down_under_one_name"], strict_only: false }
}

fn build(rng: &mut Rng) -> Plan {
    let mut items = Vec::new();
    let mut features = Vec::new();
    // which names are inherited
    let mut inherited: Vec<&str> = Vec::new();
    for n in NAMES {
        if rng.chance(1, 2) {
            inherited.push(n);
            items.push(Item::Inherit(n.to_string()));
        }
    }
    // definers: (kind index, name); module definitions for inherited names most of the time
    let mut defs: Vec<(usize, &str)> = Vec::new();
    let mut stored_self: Vec<(usize, &str)> = Vec::new();
    let use_var = rng.chance(1, 5);
    for n in &inherited {
        if rng.chance(5, 6) {
            defs.push((0, n));
        }
    }
    let extra = rng.range(1, 5);
    for _ in 0..extra {
        let k = rng.below(KINDS.len());
        let n = *rng.pick(NAMES);
        if !defs.contains(&(k, n)) {
            defs.push((k, n));
        } else if rng.chance(1, 6) {
            // a second definition on the same nodes: must be an error
            defs.push((k, n));
            features.push("duplicate_definition");
        }
    }
    // now and then every definition of one name holds the same constant: a node's own definition
    // is its own even when it equals what it would inherit
    let const_name: Option<&str> = if rng.chance(1, 5) { Some(*rng.pick(NAMES)) } else { None };
    if const_name.is_some() {
        features.push("definitions_with_equal_values_on_ancestor_and_descendant");
    }
    let null_name: Option<&str> = if const_name.is_none() && !inherited.is_empty() && rng.chance(1, 6) { Some(*rng.pick(&inherited)) } else { None };
    if null_name.is_some() {
        features.push("null_valued_definition_below_an_inherited_one");
    }
    for (k, n) in &defs {
        let (_, q, cap) = KINDS[*k];
        // a definition may also be `#null`: it is a definition all the same and masks what the
        // node would inherit
        let value = if const_name == Some(*n) {
            GExpr::str("same value everywhere")
        } else if *k != 0 && null_name == Some(*n) {
            GExpr::Null
        } else {
            node_value(cap, n)
        };
        let mut stmts = if use_var {
            vec![stmt(StmtKind::Var(GVar::s(GExpr::cap(cap), n), value))]
        } else {
            vec![stmt(StmtKind::Let(GVar::s(GExpr::cap(cap), n), value))]
        };
        let store_self = rng.chance(1, 3) && !stored_self.contains(&(*k, *n));
        if store_self {
            // a syntax node stored in a scoped variable, for nested scopes (@x.self_NAME.NAME)
            stmts.push(stmt(StmtKind::Let(GVar::s(GExpr::cap(cap), &format!("self_{}", n)), GExpr::cap(cap))));
            stored_self.push((*k, *n));
        }
        items.push(Item::Stanza(GStanza { query: q.into(), pool: None, stmts, loc: Loc::default() }));
    }
    // nested scope expressions: @x.self_NAME.NAME resolves through the stored node
    for (k, n) in &stored_self {
        let (_, q, cap) = KINDS[*k];
        let node = format!("ns{}", k);
        items.push(Item::Stanza(GStanza {
            query: q.into(),
            pool: None,
            stmts: vec![
                stmt(StmtKind::Node(GVar::u(&node))),
                stmt(StmtKind::AttrNode(
                    GExpr::var(&node),
                    vec![
                        GAttr { name: "nested_at".into(), value: Some(node_value(cap, "nested")) },
                        GAttr { name: "nested_scope".into(), value: Some(GExpr::scoped(GExpr::scoped(GExpr::cap(cap), &format!("self_{}", n)), n)) },
                    ],
                )),
            ],
            loc: Loc::default(),
        }));
        features.push("nested_scope_expression");
    }
    // a scoped variable that holds a graph node created by its own value expression: however
    // often and from wherever it is read, it is that one node
    let shared_node = rng.chance(1, 3);
    if shared_node {
        items.insert(0, Item::Inherit("gnode".to_string()));
        let k = if rng.chance(2, 3) { 0 } else { rng.below(3) };
        let (_, q, cap) = KINDS[k];
        let mut stmts = vec![stmt(StmtKind::Let(GVar::s(GExpr::cap(cap), "gnode"), GExpr::call("node", vec![])))];
        if rng.chance(1, 2) {
            stmts.push(stmt(StmtKind::AttrNode(GExpr::scoped(GExpr::cap(cap), "gnode"), vec![GAttr { name: "shared_at".into(), value: Some(node_value(cap, "shared")) }])));
        }
        items.push(Item::Stanza(GStanza { query: q.into(), pool: None, stmts, loc: Loc::default() }));
        features.push("graph_node_valued_scoped_variable");
    }
    // an assignment reaches exactly the node it names: on a node that lacks the variable it is an
    // error (also when an ancestor has it and the name is inherited), never a silent definition
    if use_var && rng.chance(1, 3) {
        let k = rng.below(KINDS.len());
        let (_, q, cap) = KINDS[k];
        let n = *rng.pick(NAMES);
        items.push(Item::Stanza(GStanza { query: q.into(), pool: None, stmts: vec![stmt(StmtKind::Set(GVar::s(GExpr::cap(cap), n), GExpr::str("assigned")))], loc: Loc::default() }));
        features.push(if defs.contains(&(k, n)) { "assignment_to_defined_scoped_variable" } else { "assignment_to_scoped_variable_missing_on_that_node" });
    }
    // readers (now and then none at all: definitions nobody reads are still checked for duplicates)
    let definitions_only = rng.chance(1, 12);
    if definitions_only {
        features.push("definitions_without_any_reader");
    }
    let nreaders = if definitions_only { 0 } else { rng.range(1, 4) };
    for ri in 0..nreaders {
        let (q, caps) = *rng.pick(READERS);
        let mut stmts = Vec::new();
        let node = format!("r{}", ri);
        stmts.push(stmt(StmtKind::Node(GVar::u(&node))));
        let mut attrs = vec![GAttr { name: "reader".into(), value: Some(GExpr::Int(ri as u32)) }];
        let mut used = Vec::new();
        for (cap, quant) in caps.iter() {
            match *quant {
                "" => {
                    used.push(*cap);
                    attrs.push(GAttr { name: format!("at_{}", cap), value: Some(node_value(cap, "reader")) });
                    if shared_node && rng.chance(2, 3) {
                        stmts.push(stmt(StmtKind::Edge(GExpr::var(&node), GExpr::scoped(GExpr::cap(cap), "gnode"))));
                    }
                    // read one or two names: prefer names that can resolve
                    for _ in 0..rng.range(1, 2) {
                        let risky = rng.chance(1, 10);
                        let name = if risky { *rng.pick(NAMES) } else if !inherited.is_empty() { *rng.pick(&inherited) } else { *rng.pick(NAMES) };
                        let an = format!("read_{}_{}", cap, name);
                        if attrs.iter().any(|a| a.name == an) {
                            continue;
                        }
                        let read_ok = inherited.contains(&name) && defs.contains(&(0, name));
                        if read_ok || risky || rng.chance(1, 3) {
                            attrs.push(GAttr { name: an, value: Some(GExpr::scoped(GExpr::cap(cap), name)) });
                            if !read_ok {
                                features.push("read_that_may_be_undefined");
                            }
                        }
                    }
                }
                "?" => {
                    used.push(*cap);
                    attrs.push(GAttr { name: format!("opt_{}", cap), value: Some(GExpr::cap(cap)) });
                }
                _ => {
                    used.push(*cap);
                    if !inherited.is_empty() {
                        let name = *rng.pick(&inherited);
                        // through list elements
                        let e = format!("e{}", ri);
                        let m = format!("m{}", ri);
                        stmts.push(stmt(StmtKind::For(
                            GUVar::new(&e),
                            GExpr::cap(cap),
                            vec![
                                stmt(StmtKind::Node(GVar::u(&m))),
                                stmt(StmtKind::AttrNode(
                                    GExpr::var(&m),
                                    vec![
                                        GAttr { name: "elem_of".into(), value: Some(GExpr::Int(ri as u32)) },
                                        GAttr { name: "elem_pos".into(), value: Some(GExpr::List(vec![GExpr::call("start-row", vec![GExpr::var(&e)]), GExpr::call("start-column", vec![GExpr::var(&e)]), GExpr::call("node-type", vec![GExpr::var(&e)])])) },
                                        GAttr { name: format!("elem_read_{}", name), value: Some(GExpr::scoped(GExpr::var(&e), name)) },
                                    ],
                                )),
                            ],
                        )));
                        features.push("read_through_list_element");
                        // and through a comprehension
                        attrs.push(GAttr {
                            name: format!("all_{}_{}", cap, name),
                            value: Some(GExpr::ListComp { elem: Box::new(GExpr::scoped(GExpr::var("y"), name)), var: GUVar::new("y"), src: Box::new(GExpr::cap(cap)), loc: Loc::default() }),
                        });
                    } else {
                        attrs.push(GAttr { name: format!("list_{}", cap), value: Some(GExpr::cap(cap)) });
                    }
                    if rng.chance(1, 12) {
                        // a list is not a scope, however many elements it happens to have
                        attrs.push(GAttr { name: format!("bad_scope_{}", cap), value: Some(GExpr::scoped(GExpr::cap(cap), *rng.pick(NAMES))) });
                        features.push("list_capture_used_as_scope");
                    }
                }
            }
        }
        stmts.push(stmt(StmtKind::AttrNode(GExpr::var(&node), attrs)));
        items.push(Item::Stanza(GStanza { query: q.into(), pool: None, stmts, loc: Loc::default() }));
    }
    if use_var {
        features.push("mutable_scoped_definitions");
    }
    // strict mode only (stanza order is execution order there): a nearer definition that arrives
    // after a first round of inherited reads, followed by a second round of reads; with `var`
    // also an assignment to the outer definition between the two rounds
    let mut strict_only = use_var;
    if !inherited.is_empty() && rng.chance(1, 4) {
        let name = *rng.pick(&inherited);
        if defs.contains(&(0, name)) {
            let k = 1 + rng.below(3);
            if !defs.contains(&(k, name)) {
                let (_, q, cap) = KINDS[k];
                let value = if const_name == Some(name) { GExpr::str("same value everywhere") } else { GExpr::List(vec![GExpr::str("late"), GExpr::call("start-row", vec![GExpr::cap(cap)])]) };
                let st = if use_var { StmtKind::Var(GVar::s(GExpr::cap(cap), name), value) } else { StmtKind::Let(GVar::s(GExpr::cap(cap), name), value) };
                items.push(Item::Stanza(GStanza { query: q.into(), pool: None, stmts: vec![stmt(st)], loc: Loc::default() }));
                if use_var && rng.chance(1, 2) {
                    items.push(Item::Stanza(GStanza { query: KINDS[0].1.into(), pool: None, stmts: vec![stmt(StmtKind::Set(GVar::s(GExpr::cap(KINDS[0].2), name), GExpr::str("reassigned")))], loc: Loc::default() }));
                    features.push("outer_definition_reassigned_between_reads");
                }
                for (ri, q2) in ["(identifier) @x", "(call) @x", "(expression_statement) @x"].iter().enumerate() {
                    if ri > 0 && rng.chance(1, 2) {
                        continue;
                    }
                    let node = format!("late_r{}", ri);
                    items.push(Item::Stanza(GStanza {
                        query: (*q2).into(),
                        pool: None,
                        stmts: vec![
                            stmt(StmtKind::Node(GVar::u(&node))),
                            stmt(StmtKind::AttrNode(GExpr::var(&node), vec![GAttr { name: "late_at".into(), value: Some(node_value("x", "late reader")) }, GAttr { name: "late_read".into(), value: Some(GExpr::scoped(GExpr::cap("x"), name)) }])),
                        ],
                        loc: Loc::default(),
                    }));
                }
                features.push("nearer_definition_after_first_reads");
                strict_only = true;
            }
        }
    }
    Plan { file: GFile { items }, features, strict_only }
}

const SOURCES: &[&str] = &[
    "x",
    "x\ny\nz\n",
    "def a():\n    def b():\n        def c():\n            def d():\n                pass\n            return d\n        return c\n    return b\n",
    "class A:\n    class B:\n        def m(self):\n            self.x = f(g(h(1)))\n            pass\n",
    "f(a, b, c)\ng(a, a, a)\nh()\n",
    "a = b = c\nd.e.f = g.h\n",
    "def f(x):\n    pass\ndef g(x):\n    pass\ndef h(x):\n    pass\n",
    "x = 1\nx = 1\nx = 1\nx = 1\nx = 1\nx = 1\n",
    "if a:\n    if b:\n        if c:\n            pass\n",
    "((((x))))\n",
    "foo.bar(baz.qux(1 + 2, 3 * 4))\n",
];

impl Prop for C04 {
    fn id(&self) -> &'static str {
        "C04"
    }
    fn cases(&self, cfg: &RunCfg) -> usize {
        match cfg.tier {
            Tier::Quick => 1200,
            Tier::Thorough => 50_000,
        }
    }
    fn run_case(&self, _cfg: &RunCfg, idx: usize, rng: &mut Rng, out: &mut Out) {
        let mut plan = if idx % 10 == 3 { build_passed_down(rng) } else { build(rng) };
        plan.file.number();
        let text = print_house(&mut plan.file);
        let source = if rng.chance(1, 2) { (*rng.pick(SOURCES)).to_string() } else { py::gen_any_source(rng, 10, 10) };
        let tree = parse_python(&source);
        // a second tree alive at the same time (identity must not leak between trees)
        let other_source = py::gen_source(rng, 4);
        let other_tree = parse_python(&other_source);
        let ti = TreeInfo::new(&tree);
        if ti.anomaly.is_some() {
            out.inconclusive("tree-sitter anomaly");
            return;
        }
        let prep = match prepare(&plan.file, &tree, &source, &ti) {
            Ok(p) => p,
            Err(e) => {
                out.inconclusive(&format!("oracle could not compile a query: {}", e));
                return;
            }
        };
        if prep.rootless > 0 || prep.shape_anomalies > 0 {
            out.inconclusive("match without root node / capture shape anomaly");
            return;
        }
        let globals = BTreeMap::new();
        let case = || case_json(&text, &source, &globals);
        let file = match exec::load(&text) {
            Loaded::Ok(f) => f,
            Loaded::Err(e) => {
                out.violation("C04:load-rejected", &format!("{}", e), case());
                return;
            }
            Loaded::Panic(p) => {
                out.violation("C04:load-panic", &format!("{}: {}", p.location, p.message), case());
                return;
            }
        };
        let (model, counters) = match run_model(&plan.file, &ti, &source, &globals, &prep.matches, None) {
            Ok(r) => r,
            Err(e) => {
                out.inconclusive(&format!("harness: {}", crate::util::trunc(&e, 100)));
                return;
            }
        };
        let functions = stdlib();
        // the other tree is executed first with the same file (several trees alive at once)
        let other_ti = TreeInfo::new(&other_tree);
        let _ = exec::execute(&file, &other_tree, &other_source, &other_ti, &globals, &functions, &ExecOpts::new(rng.chance(1, 2)));
        for lazy in [false, true] {
            if lazy && plan.strict_only {
                continue;
            }
            let mode = if lazy { "lazy" } else { "strict" };
            let rep = exec::execute(&file, &tree, &source, &ti, &globals, &functions, &ExecOpts::new(lazy));
            out.eval();
            match compare_model_real(&model, &rep.real, 300_000) {
                Verdict::Agree => {}
                Verdict::Skip(why) => {
                    out.inconclusive(&why);
                    return;
                }
                Verdict::Violation(sig, msg) => {
                    let mut cj = case();
                    cj["observed"] = json!(rep.real.brief());
                    cj["expected"] = json!(match &model {
                        Outcome::Graph(g) => format!("graph {}", g.brief()),
                        Outcome::Error(e) => format!("error {}", e.class.name()),
                    });
                    out.violation(&format!("C04:{}:{}", mode, sig), &msg, cj);
                    return;
                }
            }
            if let (Outcome::Error(me), Real::Error(re, _)) = (&model, &rep.real) {
                out.feat(&format!("error:{}:{}:{}", mode, me.class.name(), re.root));
            }
        }
        match &model {
            Outcome::Graph(_) => out.feat("outcome:graph"),
            Outcome::Error(e) => {
                out.feat("outcome:error");
                match e.class {
                    ErrClass::DuplicateVariable => out.feat("duplicate_definition_rejected"),
                    ErrClass::UndefinedScopedVariable => out.feat("undefined_lookup_rejected"),
                    _ => {}
                }
            }
        }
        for f in &plan.features {
            out.feat(&format!("plan:{}", f));
        }
        counters_features(out, &counters);
        // same-range parent/child pair among captured nodes?
        let same_range = ti.nodes.iter().enumerate().any(|(_, n)| n.parent.map(|p| ti.nodes[p].start_byte == n.start_byte && ti.nodes[p].end_byte == n.end_byte).unwrap_or(false));
        if same_range {
            out.feat("same_range_parent_child_in_tree");
        }
        if counters.scoped_reads_inherited + counters.scoped_reads_own >= 1 {
            out.nontrivial(case_hash(&text, &source, &globals));
        }
        if out.want_sample() && counters.scoped_reads_inherited >= 2 && text.len() < 2500 {
            out.sample(case());
        }
    }
    fn finish(&self, _cfg: &RunCfg, out: &mut Out) {
        let reg = SYNTAX_NODES_REGISTERED.load(Ordering::Relaxed);
        let col = SYNTAX_NODE_ID_COLLISIONS.load(Ordering::Relaxed);
        out.feat_n("hook:syntax_nodes_registered", reg as u64);
        out.feat_n("hook:syntax_node_id_collisions", col as u64);
        if col > 0 {
            out.violation("C04:syntax-node-id-collision", &format!("{} registrations of a syntax node met a different node under the same (truncated) id", col), json!({"registered": reg, "collisions": col}));
        }
    }
}
