//! C01 – execution yields exactly the graph the reference prescribes (strict mode vs model).

use super::common::*;
use crate::gen::dsl::GenCfg;
use crate::model::interp::Outcome;
use crate::oracle::exec::{self, ExecOpts, Loaded};
use crate::oracle::tree::{parse_python, TreeInfo};
use crate::util::{Out, Rng};
use crate::{Prop, RunCfg, Tier};
use serde_json::json;

pub struct C01;

impl Prop for C01 {
    fn id(&self) -> &'static str {
        "C01"
    }
    fn cases(&self, cfg: &RunCfg) -> usize {
        match cfg.tier {
            Tier::Quick => 1500,
            Tier::Thorough => 60000,
        }
    }
    fn run_case(&self, cfg: &RunCfg, _idx: usize, rng: &mut Rng, out: &mut Out) {
        let mut gcfg = GenCfg::strict_full();
        let mut max_src = 12;
        if cfg.tier == Tier::Thorough {
            // deeper bounds: up to 8 stanzas, larger sources
            gcfg.max_stanzas = 8;
            max_src = 25;
            if gcfg.deepen(rng) {
                out.feat("deep_bounds(depth<=6,stanzas<=12)");
            }
        }
        let case = build_case(rng, &gcfg, 25, 15, max_src);
        let tree = parse_python(&case.source);
        let ti = TreeInfo::new(&tree);
        if let Some(a) = &ti.anomaly {
            out.inconclusive(&format!("tree-sitter anomaly: {}", a));
            return;
        }
        let prep = match prepare(&case.prog.file, &tree, &case.source, &ti) {
            Ok(p) => p,
            Err(e) => {
                out.inconclusive(&format!("oracle could not compile a pool query: {}", e));
                return;
            }
        };
        if prep.rootless > 0 || prep.shape_anomalies > 0 {
            out.inconclusive("match without root node / capture shape anomaly");
            return;
        }
        let file = match exec::load(&case.text) {
            Loaded::Ok(f) => f,
            Loaded::Err(e) => {
                // a generated rule-abiding file was rejected: that is C06's business; here the
                // case simply does not contribute
                out.feat("load_rejected");
                out.feat(&format!("load_rejected:{}", crate::util::trunc(&format!("{:?}", e), 60)));
                return;
            }
            Loaded::Panic(p) => {
                out.violation(
                    &format!("C01:load-panic:{}", p.site_file()),
                    &format!("loading panicked at {}: {}", p.location, p.message),
                    case_json(&case.text, &case.source, &case.prog.globals),
                );
                return;
            }
        };
        let (model, counters) = match run_model(&case.prog.file, &ti, &case.source, &case.prog.globals, &prep.matches, None) {
            Ok(r) => r,
            Err(e) => {
                out.inconclusive(&format!("harness: {}", crate::util::trunc(&e, 100)));
                return;
            }
        };
        let functions = stdlib();
        let rep = exec::execute(&file, &tree, &case.source, &ti, &case.prog.globals, &functions, &ExecOpts::new(false));
        out.eval();
        if rep.poll_limit_hit {
            out.violation(
                "C01:no-termination",
                "execution exceeded the poll budget",
                case_json(&case.text, &case.source, &case.prog.globals),
            );
            return;
        }
        match compare_model_real(&model, &rep.real, 200_000) {
            Verdict::Agree => {}
            Verdict::Skip(why) => {
                out.inconclusive(&why);
                return;
            }
            Verdict::Violation(sig, msg) => {
                let mut cj = case_json(&case.text, &case.source, &case.prog.globals);
                cj["observed"] = json!(rep.real.brief());
                cj["expected"] = json!(match &model {
                    Outcome::Graph(g) => format!("graph {}", g.brief()),
                    Outcome::Error(e) => format!("error {}", e.class.name()),
                });
                out.violation(&format!("C01:{}", sig), &msg, cj);
                return;
            }
        }
        // evidence
        match &model {
            Outcome::Graph(g) => {
                out.feat("outcome:graph");
                out.feat_n("graph_nodes", g.nodes.len() as u64);
                out.feat_n("graph_edges", g.edge_count() as u64);
            }
            Outcome::Error(e) => {
                out.feat("outcome:error");
                out.feat(&format!("error:{}", e.class.name()));
            }
        }
        if let exec::Real::Error(e, _) = &rep.real {
            out.feat(&format!("real_error:{}", e.root));
        }
        for f in &case.prog.features {
            out.feat(&format!("gen:{}", f));
        }
        if case.wild {
            out.feat("layout:wild");
        }
        if ti.has_error() {
            out.feat("tree_with_errors");
        }
        if let Some(f) = &case.prog.fault {
            out.feat(&format!("fault:{}", f));
        }
        counters_features(out, &counters);
        if counters.statements >= 3 && counters.matches >= 1 {
            out.nontrivial(case_hash(&case.text, &case.source, &case.prog.globals));
        }
        if out.want_sample() && counters.statements >= 5 {
            let mut cj = case_json(&case.text, &case.source, &case.prog.globals);
            cj["outcome"] = json!(rep.real.brief());
            out.sample(cj);
        }
    }
}
