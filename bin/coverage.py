#!/usr/bin/env python3
"""Line coverage of /repo/src reached by the monitors' workloads (diagnostic, not a check).
   usage: coverage.py [--budget S] [--shards N] [props...]   -> /verif/work/coverage/{summary.json,uncovered.txt}"""
import glob, json, os, subprocess, sys, shutil
V='/verif'; T=V+'/target/cov'; W=V+'/work/coverage'
TOOLS=glob.glob(os.path.expanduser('~/.rustup/toolchains/nightly-x86_64*/lib/rustlib/x86_64-unknown-linux-gnu/bin'))[0]
def main():
    args=sys.argv[1:]; budget=10; shards=4; props=[]
    i=0
    while i<len(args):
        if args[i]=='--budget': budget=float(args[i+1]); i+=2
        elif args[i]=='--shards': shards=int(args[i+1]); i+=2
        else: props.append(args[i]); i+=1
    meta=json.load(open(V+'/props_meta.json'))
    props=props or sorted(meta)
    shutil.rmtree(W, ignore_errors=True); os.makedirs(W+'/raw'); os.makedirs(W+'/out')
    env=dict(os.environ, RUSTFLAGS='-Cinstrument-coverage', CARGO_TARGET_DIR=T, CARGO_NET_OFFLINE='true')
    subprocess.run(['cargo','+nightly','build','--release','--offline'], cwd=V+'/harness', env=env, check=True, stdout=subprocess.DEVNULL, stderr=subprocess.DEVNULL)
    exe=T+'/release/tsgmon'
    cli=V+'/target/cli/debug/tree-sitter-graph'
    for p in props:
        procs=[]
        for s in range(shards):
            e=dict(os.environ, LLVM_PROFILE_FILE='%s/raw/%s-%d-%%p.profraw' % (W,p,s), TSG_CLI=cli, TSG_CLI_HOME=V+'/work/cli_home')
            procs.append(subprocess.Popen([exe,'run',p,'--tier','quick','--seed','0','--shard',str(s),'--nshards',str(shards),'--out','%s/out/%s-%d.json'%(W,p,s),'--budget',str(budget),'--replays',W+'/out'], env=e, cwd=W, stdout=subprocess.DEVNULL, stderr=subprocess.DEVNULL))
        for q in procs: q.wait()
        print(p, [q.returncode for q in procs], flush=True)
    raws=glob.glob(W+'/raw/*.profraw')
    open(W+'/raws.txt','w').write('\n'.join(raws))
    subprocess.run([TOOLS+'/llvm-profdata','merge','-sparse','-f',W+'/raws.txt','-o',W+'/all.profdata'], check=True)
    r=subprocess.run([TOOLS+'/llvm-cov','export','--format=lcov','--instr-profile',W+'/all.profdata',exe,'--ignore-filename-regex','(registry|rustc|harness)'], capture_output=True, text=True)
    cur=None; files={}
    for line in r.stdout.splitlines():
        if line.startswith('SF:'): cur=line[3:]; files[cur]={}
        elif line.startswith('DA:'):
            ln,c=line[3:].split(',')[:2]; files[cur][int(ln)]=int(c)
    summ={}; unc=[]
    for f,d in sorted(files.items()):
        if '/src/' not in f or not d: continue
        cov=sum(1 for c in d.values() if c>0)
        summ[f]={'lines':len(d),'covered':cov,'pct':round(100*cov/len(d),1)}
        src=open(f).read().splitlines()
        for ln in sorted(d):
            if d[ln]==0: unc.append('%s:%d: %s' % (f,ln,src[ln-1] if ln-1<len(src) else ''))
    json.dump(summ, open(W+'/summary.json','w'), indent=1)
    open(W+'/uncovered.txt','w').write('\n'.join(unc)+'\n')
    for f,s in summ.items(): print('%-50s %5d/%5d %5.1f%%' % (f, s['covered'], s['lines'], s['pct']))
main()
