"""C17 thorough: the FFI-free container workload under Miri and ASan."""
import os, sys
sys.path.insert(0, os.path.dirname(os.path.abspath(__file__)))
import sanitize

def post(prop, tier, seed, total, run_dir, binary):
    if tier != "thorough":
        return
    sanitize.run_variant("asan", prop, tier, seed, total, run_dir, 16, 3000, timeout=1800)
    sanitize.run_miri(prop, tier, seed, total, run_dir, 16, 5, timeout=4000)
