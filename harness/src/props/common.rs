//! Helpers shared by the property modules.

use crate::gen::ast::*;
use crate::gen::dsl::{gen_program, GenCfg, GenProgram};
use crate::gen::print::{print_house, print_wild};
use crate::gen::py;
use crate::model::interp::{Counters, ErrClass, Interp, MatchInfo, Outcome};
use crate::model::value::*;
use crate::oracle::exec::Real;
use crate::oracle::iso::{isomorphic, Iso};
use crate::oracle::matches::{self, StanzaQuery};
use crate::oracle::tree::TreeInfo;
use crate::util::{catch, hash_str, mix, Out, Rng};
use serde_json::json;
use std::collections::BTreeMap;
use tree_sitter::Tree;

pub struct ProgCase {
    pub prog: GenProgram,
    pub text: String,
    pub source: String,
    pub wild: bool,
}

pub fn build_case(rng: &mut Rng, cfg: &GenCfg, wild_pct: usize, src_fault_pct: usize, max_src: usize) -> ProgCase {
    let mut prog = gen_program(rng, cfg);
    let wild = rng.chance(wild_pct, 100);
    let text = if wild {
        print_wild(&mut prog.file, rng).0
    } else {
        print_house(&mut prog.file)
    };
    let source = py::gen_any_source(rng, max_src, src_fault_pct);
    if std::env::var("TSGMON_DUMP").is_ok() {
        eprintln!("--- dsl\n{}\n--- source\n{}\n--- globals {:?}", text, source, prog.globals);
    }
    ProgCase {
        prog,
        text,
        source,
        wild,
    }
}

pub fn case_hash(text: &str, source: &str, globals: &BTreeMap<String, MVal>) -> u64 {
    mix(&[
        hash_str(text),
        hash_str(source),
        hash_str(&format!("{:?}", globals)),
    ])
}

pub fn case_json(text: &str, source: &str, globals: &BTreeMap<String, MVal>) -> serde_json::Value {
    let g: serde_json::Map<String, serde_json::Value> =
        globals.iter().map(|(k, v)| (k.clone(), v.to_json())).collect();
    json!({"dsl": text, "source": source, "globals": g})
}

pub struct Prepared {
    pub queries: Vec<StanzaQuery>,
    pub matches: Vec<Vec<MatchInfo>>,
    pub captures: Vec<Vec<(String, Quant)>>,
    pub rootless: usize,
    pub shape_anomalies: usize,
    pub total_matches: usize,
}

/// Compile every stanza's pattern with the match oracle and enumerate its matches.
pub fn prepare(file: &GFile, tree: &Tree, source: &str, ti: &TreeInfo) -> Result<Prepared, String> {
    let mut p = Prepared {
        queries: Vec::new(),
        matches: Vec::new(),
        captures: Vec::new(),
        rootless: 0,
        shape_anomalies: 0,
        total_matches: 0,
    };
    for st in file.stanzas() {
        let sq = matches::compile(&st.query)?;
        let ms = matches::enumerate(&sq, tree, source, ti);
        p.rootless += ms.rootless;
        p.shape_anomalies += ms.shape_anomalies;
        p.total_matches += ms.matches.len();
        p.captures
            .push(sq.captures.iter().map(|(n, q, _)| (n.clone(), *q)).collect());
        p.matches.push(ms.matches);
        p.queries.push(sq);
    }
    Ok(p)
}

pub fn captures_only(file: &GFile) -> Result<Vec<Vec<(String, Quant)>>, String> {
    let mut out = Vec::new();
    for st in file.stanzas() {
        let sq = matches::compile(&st.query)?;
        out.push(sq.captures.iter().map(|(n, q, _)| (n.clone(), *q)).collect());
    }
    Ok(out)
}

pub fn run_model(
    file: &GFile,
    ti: &TreeInfo,
    source: &str,
    globals: &BTreeMap<String, MVal>,
    matches: &[Vec<MatchInfo>],
    initial: Option<OGraph>,
) -> Result<(Outcome, Counters), String> {
    catch(|| Interp::new(file, ti, source, globals, initial).run(matches))
        .map_err(|p| format!("model panic at {}: {}", p.location, p.message))
}

pub enum Verdict {
    Agree,
    /// (signature suffix, message)
    Violation(String, String),
    /// not decidable for a stated reason
    Skip(String),
}

/// "error vs graph" agreement plus graph isomorphism.
pub fn compare_model_real(model: &Outcome, real: &Real, iso_budget: usize) -> Verdict {
    match (model, real) {
        (_, Real::Panic(p)) => Verdict::Violation(
            format!("panic:{}", p.site_file()),
            format!("panic at {}: {}", p.location, crate::util::trunc(&p.message, 300)),
        ),
        (_, Real::Unreadable(s)) => {
            Verdict::Violation("unreadable-graph".into(), s.clone())
        }
        (Outcome::Error(me), _) if matches!(me.class, ErrClass::Unsupported(_)) => {
            Verdict::Skip(format!("model: {}", me.class.name()))
        }
        (Outcome::Graph(mg), Real::Graph(rg)) => match isomorphic(mg, rg, iso_budget) {
            Iso::Same => Verdict::Agree,
            Iso::Different(why) => Verdict::Violation(
                "graph-differs".into(),
                format!("result graph differs from the reference model: {}", why),
            ),
            Iso::Unknown => Verdict::Skip("isomorphism budget exhausted".into()),
        },
        (Outcome::Error(_), Real::Error(..)) => Verdict::Agree,
        (Outcome::Graph(_), Real::Error(e, _)) => Verdict::Violation(
            format!("spurious-error:{}", e.root),
            format!(
                "execution failed although the reference rules give a graph: {}",
                crate::util::trunc(&e.display, 500)
            ),
        ),
        (Outcome::Error(me), Real::Graph(_)) => Verdict::Violation(
            format!("missing-error:{}", me.class.name()),
            format!(
                "execution returned a graph although the reference rules make it fail ({} in stanza {} match {} statement {})",
                me.class.name(),
                me.stanza,
                me.match_index,
                me.stmt_id
            ),
        ),
    }
}

pub fn counters_features(out: &mut Out, c: &Counters) {
    for (k, v) in &c.statements_by_kind {
        out.feat_n(&format!("stmt:{}", k), *v);
    }
    out.feat_n("model:attributes", c.attributes);
    out.feat_n("model:scan_iterations", c.scan_iterations);
    out.feat_n("model:matches", c.matches);
    out.feat_n("model:nodes_created", c.nodes_created);
    out.feat_n("model:edges_created", c.edges_created);
    out.feat_n("model:edge_recreated", c.edge_recreated);
    out.feat_n("model:attr_reassigned_equal", c.attr_reassigned_equal);
    out.feat_n("model:scoped_defs", c.scoped_defs);
    out.feat_n("model:scoped_reads_own", c.scoped_reads_own);
    out.feat_n("model:scoped_reads_inherited", c.scoped_reads_inherited);
    out.feat_n("model:loop_iterations", c.loop_iterations);
    out.feat_n("model:comprehension_iterations", c.comprehension_iterations);
    out.feat_n("model:shorthand_expansions", c.shorthand_expansions);
    out.feat_n("model:if_arms_taken", c.if_arms_taken);
    out.feat_n("model:if_no_arm", c.if_no_arm);
    out.feat_n("model:calls", c.calls);
    if c.max_inherit_distance >= 2 {
        out.feat("model:inherit_distance_ge2");
    }
}

pub fn stdlib() -> tree_sitter_graph::functions::Functions {
    tree_sitter_graph::functions::Functions::stdlib()
}
