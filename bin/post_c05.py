"""C05 thorough: a sample of the fuzzing workload under ASan (C instrumented), memcheck and
a plain release profile (no overflow checks / debug assertions: symptoms flip between profiles)."""
import os, sys
sys.path.insert(0, os.path.dirname(os.path.abspath(__file__)))
import sanitize

def post(prop, tier, seed, total, run_dir, binary):
    if tier != "thorough":
        return
    sanitize.run_variant("asan", prop, tier, seed, total, run_dir, 16, 2500, timeout=2400)
    sanitize.run_variant("plain", prop, tier, seed, total, run_dir, 16, 2500, timeout=1200)
    sanitize.run_memcheck(prop, tier, seed, total, run_dir, binary, 400, timeout=2400)
