"""thorough tier: a slice of the workload again under ASan with clang-instrumented C (FFI boundary)."""
import os, sys
sys.path.insert(0, os.path.dirname(os.path.abspath(__file__)))
import sanitize

def post(prop, tier, seed, total, run_dir, binary):
    if tier != "thorough":
        return
    sanitize.run_variant("asan", prop, tier, seed, total, run_dir, 16, 400, timeout=1800)
