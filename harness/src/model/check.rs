//! Static checker over the harness AST implementing the documented load-time rules.
//! Reports *all* violations it finds, each with the rule and the admissible locations.

use crate::gen::ast::*;
use std::collections::{BTreeSet, HashMap, HashSet};

#[derive(Clone, Copy, Debug, PartialEq, Eq, PartialOrd, Ord, Hash)]
pub enum Rule {
    UndefinedVariable,
    Redefinition,
    AssignImmutable,
    AssignUndefined,
    SetGlobal,
    HideGlobal,
    DuplicateGlobal,
    UnusedCapture,
    UndefinedCapture,
    ExpectedLocal,
    ExpectedOptional,
    ExpectedList,
    NullableRegex,
}

impl Rule {
    pub fn name(&self) -> &'static str {
        match self {
            Rule::UndefinedVariable => "UndefinedVariable",
            Rule::Redefinition => "Redefinition",
            Rule::AssignImmutable => "AssignImmutable",
            Rule::AssignUndefined => "AssignUndefined",
            Rule::SetGlobal => "SetGlobal",
            Rule::HideGlobal => "HideGlobal",
            Rule::DuplicateGlobal => "DuplicateGlobal",
            Rule::UnusedCapture => "UnusedCapture",
            Rule::UndefinedCapture => "UndefinedCapture",
            Rule::ExpectedLocal => "ExpectedLocal",
            Rule::ExpectedOptional => "ExpectedOptional",
            Rule::ExpectedList => "ExpectedList",
            Rule::NullableRegex => "NullableRegex",
        }
    }
}

#[derive(Clone, Debug)]
pub struct Violation {
    pub rule: Rule,
    /// admissible locations for the report
    pub locs: Vec<Loc>,
    pub stanza: Option<usize>,
    pub what: String,
}

/// static shape of a value
#[derive(Clone, Copy, Debug, PartialEq, Eq)]
pub enum Shape {
    One,
    Opt,
    List,
}

#[derive(Clone, Copy, Debug)]
struct Info {
    local: bool,
    shape: Shape,
}

struct VarDecl {
    name: String,
    info: Info,
    mutable: bool,
}

pub struct Checker<'a> {
    globals: HashMap<String, Shape>,
    /// capture name -> quantifier, per stanza
    captures: &'a [Vec<(String, Quant)>],
    pub violations: Vec<Violation>,
    scopes: Vec<Vec<VarDecl>>,
    used: HashSet<String>,
    cur_stanza: usize,
}

fn quant_shape(q: Quant) -> Shape {
    match q {
        Quant::One => Shape::One,
        Quant::Opt => Shape::Opt,
        Quant::Star | Quant::Plus => Shape::List,
    }
}

/// Does this regex match the empty string?  (The documented rule; decided with the same regex
/// engine the DSL uses, on the empty input.)
pub fn regex_nullable(re: &str) -> Option<bool> {
    regex::Regex::new(re).ok().map(|r| r.is_match(""))
}

impl<'a> Checker<'a> {
    pub fn check(file: &GFile, captures: &'a [Vec<(String, Quant)>]) -> Vec<Violation> {
        let mut c = Checker {
            globals: HashMap::new(),
            captures,
            violations: Vec::new(),
            scopes: Vec::new(),
            used: HashSet::new(),
            cur_stanza: 0,
        };
        for g in file.globals() {
            if c.globals.contains_key(&g.name) {
                c.violations.push(Violation {
                    rule: Rule::DuplicateGlobal,
                    locs: vec![g.loc],
                    stanza: None,
                    what: g.name.clone(),
                });
            } else {
                c.globals.insert(g.name.clone(), quant_shape(g.quant));
            }
        }
        for (si, st) in file.stanzas().iter().enumerate() {
            c.cur_stanza = si;
            c.scopes = vec![Vec::new()];
            c.used.clear();
            c.block(&st.stmts);
            let mut unused: BTreeSet<String> = BTreeSet::new();
            for (name, _) in &captures[si] {
                if !name.starts_with('_') && !c.used.contains(name) {
                    unused.insert(name.clone());
                }
            }
            if !unused.is_empty() {
                c.violations.push(Violation {
                    rule: Rule::UnusedCapture,
                    locs: vec![st.loc],
                    stanza: Some(si),
                    what: unused.into_iter().collect::<Vec<_>>().join(" "),
                });
            }
        }
        c.violations
    }

    fn v(&mut self, rule: Rule, locs: Vec<Loc>, what: &str) {
        self.violations.push(Violation {
            rule,
            locs,
            stanza: Some(self.cur_stanza),
            what: what.to_string(),
        });
    }

    fn block(&mut self, stmts: &[GStmt]) {
        for s in stmts {
            self.stmt(s);
        }
    }

    fn nested(&mut self, stmts: &[GStmt]) {
        self.scopes.push(Vec::new());
        self.block(stmts);
        self.scopes.pop();
    }

    fn lookup(&self, name: &str) -> Option<(Info, bool)> {
        for scope in self.scopes.iter().rev() {
            if let Some(d) = scope.iter().find(|d| d.name == name) {
                return Some((d.info, d.mutable));
            }
        }
        None
    }

    fn declare(&mut self, u: &GUVar, mut info: Info, mutable: bool) {
        if self.globals.contains_key(&u.name) {
            self.v(Rule::HideGlobal, vec![u.loc], &u.name);
            return;
        }
        if mutable {
            info.local = false;
        }
        let scope = self.scopes.last_mut().unwrap();
        if scope.iter().any(|d| d.name == u.name) {
            self.v(Rule::Redefinition, vec![u.loc], &u.name);
            return;
        }
        scope.push(VarDecl {
            name: u.name.clone(),
            info,
            mutable,
        });
    }

    fn define(&mut self, v: &GVar, info: Info, mutable: bool) {
        match v {
            GVar::Unscoped(u) => self.declare(u, info, mutable),
            GVar::Scoped(scope, _, _) => {
                self.expr(scope);
            }
        }
    }

    fn stmt(&mut self, s: &GStmt) {
        match &s.kind {
            StmtKind::Let(v, e) => {
                let i = self.expr(e);
                self.define(v, i, false);
            }
            StmtKind::Var(v, e) => {
                let i = self.expr(e);
                self.define(v, i, true);
            }
            StmtKind::Set(v, e) => {
                self.expr(e);
                match v {
                    GVar::Unscoped(u) => {
                        if self.globals.contains_key(&u.name) {
                            self.v(Rule::SetGlobal, vec![u.loc], &u.name);
                        } else {
                            match self.lookup(&u.name) {
                                None => self.v(Rule::AssignUndefined, vec![u.loc], &u.name),
                                Some((_, false)) => {
                                    self.v(Rule::AssignImmutable, vec![u.loc], &u.name)
                                }
                                Some((_, true)) => {}
                            }
                        }
                    }
                    GVar::Scoped(scope, _, _) => {
                        self.expr(scope);
                    }
                }
            }
            StmtKind::Node(v) => {
                self.define(
                    v,
                    Info {
                        local: true,
                        shape: Shape::One,
                    },
                    false,
                );
            }
            StmtKind::Edge(a, b) => {
                self.expr(a);
                self.expr(b);
            }
            StmtKind::AttrNode(n, attrs) => {
                self.expr(n);
                for a in attrs {
                    if let Some(e) = &a.value {
                        self.expr(e);
                    }
                }
            }
            StmtKind::AttrEdge(a, b, attrs) => {
                self.expr(a);
                self.expr(b);
                for at in attrs {
                    if let Some(e) = &at.value {
                        self.expr(e);
                    }
                }
            }
            StmtKind::Print(xs) => {
                for x in xs {
                    self.expr(x);
                }
            }
            StmtKind::Scan(e, arms) => {
                let i = self.expr(e);
                if !i.local {
                    self.v(Rule::ExpectedLocal, vec![s.loc], "scan source");
                }
                for arm in arms {
                    if regex_nullable(&arm.regex) == Some(true) {
                        self.v(Rule::NullableRegex, vec![s.loc, arm.loc], &arm.regex);
                    }
                    self.nested(&arm.stmts);
                }
            }
            StmtKind::If(arms) => {
                for arm in arms {
                    for c in &arm.conds {
                        let i = self.expr(&c.expr);
                        if !i.local {
                            self.v(Rule::ExpectedLocal, vec![c.loc], "condition");
                        } else if c.kind != CondKind::Bool && i.shape != Shape::Opt {
                            self.v(Rule::ExpectedOptional, vec![c.loc], "condition");
                        }
                    }
                    self.nested(&arm.stmts);
                }
            }
            StmtKind::For(v, e, body) => {
                let i = self.expr(e);
                if !i.local {
                    self.v(Rule::ExpectedLocal, vec![s.loc], "for source");
                } else if i.shape != Shape::List {
                    self.v(Rule::ExpectedList, vec![s.loc], "for source");
                }
                self.scopes.push(Vec::new());
                self.declare(
                    v,
                    Info {
                        local: i.local,
                        shape: Shape::One,
                    },
                    false,
                );
                self.block(body);
                self.scopes.pop();
            }
        }
    }

    fn expr(&mut self, e: &GExpr) -> Info {
        let one = Info {
            local: true,
            shape: Shape::One,
        };
        match e {
            GExpr::Null | GExpr::True | GExpr::False | GExpr::Int(_) | GExpr::Str(_) => one,
            GExpr::RegexCap(_) => one,
            GExpr::List(xs) | GExpr::Set(xs) => {
                let mut local = true;
                for x in xs {
                    local &= self.expr(x).local;
                }
                Info {
                    local,
                    shape: Shape::List,
                }
            }
            GExpr::ListComp { elem, var, src, loc } | GExpr::SetComp { elem, var, src, loc } => {
                let i = self.expr(src);
                if !i.local {
                    self.v(Rule::ExpectedLocal, vec![*loc], "comprehension source");
                } else if i.shape != Shape::List {
                    self.v(Rule::ExpectedList, vec![*loc], "comprehension source");
                }
                self.scopes.push(Vec::new());
                self.declare(
                    var,
                    Info {
                        local: i.local,
                        shape: Shape::One,
                    },
                    false,
                );
                let ei = self.expr(elem);
                self.scopes.pop();
                Info {
                    local: ei.local,
                    shape: Shape::List,
                }
            }
            GExpr::Capture(name, loc) => {
                match self.captures[self.cur_stanza].iter().find(|(n, _)| n == name) {
                    Some((_, q)) => {
                        self.used.insert(name.clone());
                        Info {
                            local: true,
                            shape: quant_shape(*q),
                        }
                    }
                    None => {
                        self.v(Rule::UndefinedCapture, vec![*loc], name);
                        one
                    }
                }
            }
            GExpr::Var(GVar::Unscoped(u)) => {
                if let Some(shape) = self.globals.get(&u.name) {
                    Info {
                        local: true,
                        shape: *shape,
                    }
                } else {
                    match self.lookup(&u.name) {
                        Some((i, _)) => i,
                        None => {
                            self.v(Rule::UndefinedVariable, vec![u.loc], &u.name);
                            one
                        }
                    }
                }
            }
            GExpr::Var(GVar::Scoped(scope, _, _)) => {
                self.expr(scope);
                Info {
                    local: false,
                    shape: Shape::One,
                }
            }
            GExpr::Call(_, args) => {
                let mut local = true;
                for a in args {
                    local &= self.expr(a).local;
                }
                Info {
                    local,
                    shape: Shape::One,
                }
            }
        }
    }
}
