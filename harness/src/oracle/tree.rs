//! The harness's own view of a tree-sitter tree: a top-down walk with `Node::child(i)` only
//! (no cursor, no `parent()`), giving every node a preorder index, its parent and its identity.

use std::collections::HashMap;
use tree_sitter::{Node, Parser, Tree};

pub fn python() -> tree_sitter::Language {
    tree_sitter_python::LANGUAGE.into()
}

pub fn parse_python(source: &str) -> Tree {
    let mut parser = Parser::new();
    parser.set_language(&python()).expect("python grammar");
    parser.parse(source, None).expect("parse returned None")
}

#[derive(Clone, Debug)]
pub struct NodeInfo {
    pub id: usize,
    pub kind: &'static str,
    pub named: bool,
    pub is_error: bool,
    pub is_missing: bool,
    pub start_byte: usize,
    pub end_byte: usize,
    pub start: (usize, usize),
    pub end: (usize, usize),
    pub parent: Option<usize>,
    pub children: Vec<usize>,
    pub depth: usize,
}

pub struct TreeInfo<'t> {
    pub nodes: Vec<NodeInfo>,
    pub ts_nodes: Vec<Node<'t>>,
    pub by_id: HashMap<usize, usize>,
    /// some tree-sitter behaviour the oracles rely on did not hold for this tree
    pub anomaly: Option<String>,
}

impl<'t> TreeInfo<'t> {
    pub fn new(tree: &'t Tree) -> TreeInfo<'t> {
        let mut ti = TreeInfo {
            nodes: Vec::new(),
            ts_nodes: Vec::new(),
            by_id: HashMap::new(),
            anomaly: None,
        };
        // explicit stack: deep trees must not overflow the harness
        let mut stack: Vec<(Node<'t>, Option<usize>, usize)> = vec![(tree.root_node(), None, 0)];
        while let Some((node, parent, depth)) = stack.pop() {
            let idx = ti.nodes.len();
            if let Some(p) = parent {
                ti.nodes[p].children.push(idx);
            }
            if ti.by_id.insert(node.id(), idx).is_some() {
                ti.anomaly = Some("duplicate tree-sitter node id".into());
            }
            let sp = node.start_position();
            let ep = node.end_position();
            ti.nodes.push(NodeInfo {
                id: node.id(),
                kind: node.kind(),
                named: node.is_named(),
                is_error: node.is_error(),
                is_missing: node.is_missing(),
                start_byte: node.start_byte(),
                end_byte: node.end_byte(),
                start: (sp.row, sp.column),
                end: (ep.row, ep.column),
                parent,
                children: Vec::new(),
                depth,
            });
            ti.ts_nodes.push(node);
            // push children in reverse so that they pop in document order
            let n = node.child_count();
            for i in (0..n).rev() {
                if let Some(c) = node.child(i) {
                    stack.push((c, Some(idx), depth + 1));
                }
            }
        }
        // cross-check parent(): the library walks ancestors through Node::parent()
        for (i, n) in ti.ts_nodes.iter().enumerate() {
            let p = n.parent().map(|p| p.id());
            let mine = ti.nodes[i].parent.map(|p| ti.nodes[p].id);
            if p != mine {
                ti.anomaly = Some("Node::parent() disagrees with top-down walk".into());
                break;
            }
        }
        ti
    }

    pub fn index_of(&self, node: &Node) -> Option<usize> {
        self.by_id.get(&node.id()).copied()
    }

    pub fn text<'s>(&self, idx: usize, source: &'s str) -> &'s str {
        &source[self.nodes[idx].start_byte..self.nodes[idx].end_byte]
    }

    pub fn ancestors(&self, idx: usize) -> Vec<usize> {
        let mut v = Vec::new();
        let mut cur = self.nodes[idx].parent;
        while let Some(p) = cur {
            v.push(p);
            cur = self.nodes[p].parent;
        }
        v
    }

    pub fn has_error(&self) -> bool {
        self.nodes.iter().any(|n| n.is_error || n.is_missing)
    }
}
