//! Small shared utilities: PRNG, hashing, panic capture, CPU clock, shard output.

use serde_json::json;
use serde_json::Value as J;
use std::cell::RefCell;
use std::collections::BTreeMap;
use std::collections::HashSet;
use std::io::Write;
use std::panic::AssertUnwindSafe;

// ------------------------------------------------------------------------------------------
// PRNG (xoshiro256**, seeded through splitmix64). No external crates.

#[derive(Clone)]
pub struct Rng {
    s: [u64; 4],
}

pub fn splitmix(x: &mut u64) -> u64 {
    *x = x.wrapping_add(0x9E3779B97F4A7C15);
    let mut z = *x;
    z = (z ^ (z >> 30)).wrapping_mul(0xBF58476D1CE4E5B9);
    z = (z ^ (z >> 27)).wrapping_mul(0x94D049BB133111EB);
    z ^ (z >> 31)
}

pub fn mix(parts: &[u64]) -> u64 {
    let mut h: u64 = 0x243F6A8885A308D3;
    for p in parts {
        let mut x = h ^ p.wrapping_mul(0x9E3779B97F4A7C15);
        h = splitmix(&mut x);
    }
    h
}

pub fn hash_str(s: &str) -> u64 {
    // FNV-1a 64
    let mut h: u64 = 0xcbf29ce484222325;
    for b in s.as_bytes() {
        h ^= *b as u64;
        h = h.wrapping_mul(0x100000001b3);
    }
    h
}

impl Rng {
    pub fn new(seed: u64) -> Rng {
        let mut x = seed;
        let s = [
            splitmix(&mut x),
            splitmix(&mut x),
            splitmix(&mut x),
            splitmix(&mut x),
        ];
        Rng { s }
    }
    pub fn next(&mut self) -> u64 {
        let result = self.s[1].wrapping_mul(5).rotate_left(7).wrapping_mul(9);
        let t = self.s[1] << 17;
        self.s[2] ^= self.s[0];
        self.s[3] ^= self.s[1];
        self.s[1] ^= self.s[2];
        self.s[0] ^= self.s[3];
        self.s[2] ^= t;
        self.s[3] = self.s[3].rotate_left(45);
        result
    }
    /// uniform in 0..n (n > 0)
    pub fn below(&mut self, n: usize) -> usize {
        if n <= 1 {
            return 0;
        }
        (self.next() % n as u64) as usize
    }
    /// uniform in lo..=hi
    pub fn range(&mut self, lo: usize, hi: usize) -> usize {
        lo + self.below(hi - lo + 1)
    }
    /// true with probability num/den
    pub fn chance(&mut self, num: usize, den: usize) -> bool {
        self.below(den) < num
    }
    pub fn pick<'a, T>(&mut self, xs: &'a [T]) -> &'a T {
        &xs[self.below(xs.len())]
    }
    pub fn shuffle<T>(&mut self, xs: &mut [T]) {
        for i in (1..xs.len()).rev() {
            let j = self.below(i + 1);
            xs.swap(i, j);
        }
    }
    pub fn fork(&mut self) -> Rng {
        Rng::new(self.next())
    }
}

// ------------------------------------------------------------------------------------------
// Panic capture

#[derive(Clone, Debug)]
pub struct PanicInfo {
    pub message: String,
    pub location: String,
}

thread_local! {
    static LAST_PANIC: RefCell<Option<PanicInfo>> = RefCell::new(None);
}

pub fn install_panic_hook() {
    std::panic::set_hook(Box::new(|info| {
        let message = if let Some(s) = info.payload().downcast_ref::<&str>() {
            s.to_string()
        } else if let Some(s) = info.payload().downcast_ref::<String>() {
            s.clone()
        } else {
            "<non-string panic payload>".to_string()
        };
        let location = info
            .location()
            .map(|l| format!("{}:{}", l.file(), l.line()))
            .unwrap_or_default();
        LAST_PANIC.with(|p| *p.borrow_mut() = Some(PanicInfo { message, location }));
    }));
}

/// Runs `f`, turning a panic into `Err(PanicInfo)`.
pub fn catch<T>(f: impl FnOnce() -> T) -> Result<T, PanicInfo> {
    LAST_PANIC.with(|p| *p.borrow_mut() = None);
    match std::panic::catch_unwind(AssertUnwindSafe(f)) {
        Ok(v) => Ok(v),
        Err(_) => Err(LAST_PANIC
            .with(|p| p.borrow_mut().take())
            .unwrap_or(PanicInfo {
                message: "<unknown panic>".into(),
                location: String::new(),
            })),
    }
}

impl PanicInfo {
    /// File name (without directories and line) of the panic site: a stable-ish signature part.
    pub fn site_file(&self) -> String {
        let f = self.location.split(':').next().unwrap_or("");
        f.rsplit('/').next().unwrap_or("").to_string()
    }
    /// true if the panic originated in the library under test (or its dependencies), false if
    /// it is a harness bug.
    pub fn in_harness(&self) -> bool {
        self.location.contains("harness/src") || self.location.starts_with("src/")
    }
}

// ------------------------------------------------------------------------------------------
// CPU clock (process user+system time in seconds) through /proc, no libc needed.

pub fn cpu_seconds() -> f64 {
    if cfg!(miri) {
        return 0.0;
    }
    if let Ok(s) = std::fs::read_to_string("/proc/self/stat") {
        // fields after the ")" of comm
        if let Some(pos) = s.rfind(')') {
            let rest: Vec<&str> = s[pos + 1..].split_whitespace().collect();
            // rest[0] = state; utime = field 14 => rest[11], stime = rest[12]
            if rest.len() > 12 {
                let ut: f64 = rest[11].parse().unwrap_or(0.0);
                let st: f64 = rest[12].parse().unwrap_or(0.0);
                return (ut + st) / 100.0;
            }
        }
    }
    0.0
}

// ------------------------------------------------------------------------------------------
// Shard output

pub struct Out {
    pub property: String,
    pub tier: String,
    pub seed: u64,
    pub shard: usize,
    pub evaluations: u64,
    pub hashes: HashSet<u64>,
    pub features: BTreeMap<String, u64>,
    pub samples: Vec<J>,
    pub max_samples: usize,
    pub violations: Vec<J>,
    pub inconclusive: BTreeMap<String, u64>,
    pub replay_dir: String,
    pub cur_idx: u64,
    pub quiet_replay: bool,
}

impl Out {
    pub fn new(property: &str, tier: &str, seed: u64, shard: usize, replay_dir: &str) -> Out {
        Out {
            property: property.to_string(),
            tier: tier.to_string(),
            seed,
            shard,
            evaluations: 0,
            hashes: HashSet::new(),
            features: BTreeMap::new(),
            samples: Vec::new(),
            max_samples: 3,
            violations: Vec::new(),
            inconclusive: BTreeMap::new(),
            replay_dir: replay_dir.to_string(),
            cur_idx: 0,
            quiet_replay: false,
        }
    }
    /// one execution of the code under test was observed by an oracle
    pub fn eval(&mut self) {
        self.evaluations += 1;
    }
    pub fn evals(&mut self, n: u64) {
        self.evaluations += n;
    }
    /// a non-trivial case, identified by a hash of its whole input
    pub fn nontrivial(&mut self, h: u64) {
        self.hashes.insert(h);
    }
    pub fn feat(&mut self, name: &str) {
        *self.features.entry(name.to_string()).or_insert(0) += 1;
    }
    pub fn feat_n(&mut self, name: &str, n: u64) {
        *self.features.entry(name.to_string()).or_insert(0) += n;
    }
    pub fn sample(&mut self, j: J) {
        if self.samples.len() < self.max_samples {
            self.samples.push(j);
        }
    }
    pub fn want_sample(&self) -> bool {
        self.samples.len() < self.max_samples
    }
    pub fn inconclusive(&mut self, reason: &str) {
        *self.inconclusive.entry(reason.to_string()).or_insert(0) += 1;
    }
    /// Record a violation. `signature` is a semantic signature (used to match known findings),
    /// `case` holds everything needed to understand and replay it.
    pub fn violation(&mut self, signature: &str, message: &str, case: J) {
        // at most a handful of replay files per signature per shard
        let same = self
            .violations
            .iter()
            .filter(|v| v["signature"] == signature)
            .count();
        let mut path = String::new();
        if same < 3 && !self.quiet_replay {
            let h = mix(&[
                hash_str(signature),
                self.seed,
                self.shard as u64,
                self.cur_idx,
                same as u64,
            ]);
            let dir = format!("{}/{}", self.replay_dir, self.property);
            let _ = std::fs::create_dir_all(&dir);
            path = format!("{}/{:016x}.json", dir, h);
            let doc = json!({
                "property": self.property,
                "tier": self.tier,
                "seed": self.seed,
                "shard": self.shard,
                "index": self.cur_idx,
                "signature": signature,
                "message": message,
                "case": case,
            });
            if let Ok(mut f) = std::fs::File::create(&path) {
                let _ = f.write_all(serde_json::to_string_pretty(&doc).unwrap().as_bytes());
            }
        }
        self.violations.push(json!({
            "signature": signature,
            "message": message,
            "replay": path,
            "index": self.cur_idx,
        }));
    }
    pub fn to_json(&self, hash_file: &str, done: bool) -> J {
        json!({
            "property": self.property,
            "tier": self.tier,
            "seed": self.seed,
            "shard": self.shard,
            "evaluations": self.evaluations,
            "nontrivial": self.hashes.len(),
            "hash_file": hash_file,
            "features": self.features,
            "samples": self.samples,
            "violations": self.violations,
            "inconclusive": self.inconclusive,
            "last_index": self.cur_idx,
            "done": done,
        })
    }
    pub fn write(&self, out_path: &str, done: bool) {
        let hash_file = format!("{}.hashes", out_path);
        let mut bytes: Vec<u8> = Vec::with_capacity(self.hashes.len() * 8);
        for h in &self.hashes {
            bytes.extend_from_slice(&h.to_le_bytes());
        }
        let _ = std::fs::write(&hash_file, bytes);
        let tmp = format!("{}.tmp", out_path);
        let _ = std::fs::write(
            &tmp,
            serde_json::to_string(&self.to_json(&hash_file, done)).unwrap(),
        );
        let _ = std::fs::rename(&tmp, out_path);
    }
}

pub fn trunc(s: &str, n: usize) -> String {
    if s.chars().count() <= n {
        s.to_string()
    } else {
        let t: String = s.chars().take(n).collect();
        format!("{}…", t)
    }
}
