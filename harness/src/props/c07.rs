//! C07 – parsing recovers exactly the written program and its source locations.
//! A free-form syntactic generator (no static rules: the deprecated `File::parse` does not run
//! the checker) x several layouts per program; the parsed AST is compared field by field with
//! the generator's AST, locations against what the layout printer recorded.

use crate::gen::ast::*;
use crate::gen::dsl::{gen_program, GenCfg};
use crate::gen::print::{print_house, print_wild};
use crate::gen::query::POOL;
use crate::oracle::matches;
use crate::oracle::tree::python;
use crate::util::{catch, hash_str, Out, Rng};
use crate::{Prop, RunCfg, Tier};
use serde_json::json;
use tree_sitter::CaptureQuantifier;
use tree_sitter_graph::ast as tsg;
use tree_sitter_graph::Identifier;

pub struct C07;

const NAMES: &[&str] = &[
    "x", "y1", "some-thing", "something", "none_left", "nonexistent", "format", "for_x", "forx",
    "in_list", "inx", "iffy", "letter", "variable", "setting", "nodes", "edgecase", "attribute_x",
    "printer", "scanner", "elif_x", "else_y", "true", "false", "null", "global_x", "inherited",
    "_private", "a-b-c", "x_", "somehow", "noney", "A", "camelCase", "attr-2", "lets", "vars",
    "some1", "none-left", "some-1", "none2", "some_", "none_",
    // letters and digits beyond ASCII continue an identifier
    "größe", "名前", "x²", "v٣", "ROOT１", "été_2",
    // long names
    "enclosing_function_scope", "a-rather-long-identifier-name-of-more-than-thirty-two-bytes",
];

const STRS: &[&str] = &[
    "", "plain", "two words", "quote\"inside", "back\\slash", "new\nline", "tab\t", "cr\r", "nul\0",
    "é", "日本語 text", "😀", "; not a comment", "{ not a block }", "// /* */", "#true", "@cap", "$1",
    "trailing\\", "a\\nb", "ab€", "abc€é", "é€", "a€",
];

const REGEXES: &[&str] = &["a+", "([^/]+)/", "\\.py$", "(é|ü)", "x*", "\"q\"", "\\\\", "[{}]", "\\s;"];

pub struct FreeGen<'r> {
    pub rng: &'r mut Rng,
    pub caps: Vec<String>,
}

impl<'r> FreeGen<'r> {
    fn name(&mut self) -> String {
        (*self.rng.pick(NAMES)).to_string()
    }
    fn expr(&mut self, depth: usize) -> GExpr {
        let leaf = depth >= 4 || self.rng.chance(2, 5);
        if leaf {
            return match self.rng.below(9) {
                0 => GExpr::Null,
                1 => GExpr::True,
                2 => GExpr::False,
                3 => GExpr::Int(*self.rng.pick(&[0u32, 1, 10, 42, 4294967295, 007])),
                4 | 5 => GExpr::Str((*self.rng.pick(STRS)).to_string()),
                6 => {
                    let c = if self.caps.is_empty() || self.rng.chance(1, 5) { self.name().replace('-', "_") } else { self.caps[self.rng.below(self.caps.len())].clone() };
                    GExpr::cap(&c)
                }
                7 => GExpr::RegexCap(*self.rng.pick(&[0usize, 1, 2, 10, 123])),
                _ => GExpr::var(&self.name()),
            };
        }
        match self.rng.below(8) {
            0 | 1 => {
                // elements may repeat (next to each other or apart): a literal keeps all of them
                let mut xs: Vec<GExpr> = (0..self.rng.below(4)).map(|_| self.expr(depth + 1)).collect();
                if !xs.is_empty() && self.rng.chance(1, 3) {
                    let k = self.rng.below(xs.len());
                    let dup = xs[k].clone();
                    let at = if self.rng.chance(2, 3) { k + 1 } else { self.rng.below(xs.len() + 1) };
                    xs.insert(at, dup);
                }
                if self.rng.chance(1, 2) {
                    GExpr::List(xs)
                } else {
                    GExpr::Set(xs)
                }
            }
            2 => GExpr::ListComp {
                elem: Box::new(self.expr(depth + 1)),
                var: GUVar::new(&self.name()),
                src: Box::new(self.expr(depth + 1)),
                loc: Loc::default(),
            },
            3 => GExpr::SetComp {
                elem: Box::new(self.expr(depth + 1)),
                var: GUVar::new(&self.name()),
                src: Box::new(self.expr(depth + 1)),
                loc: Loc::default(),
            },
            4 | 5 => {
                let f = (*self.rng.pick(&["node", "plus", "source-text", "format", "is-null", "f", "some-fn", "none-of", "for-each", "in"])).to_string();
                GExpr::Call(f, (0..self.rng.below(4)).map(|_| self.expr(depth + 1)).collect())
            }
            _ => {
                // scoped variable on capture / variable / call / scoped variable
                let base = match self.rng.below(4) {
                    0 => GExpr::var(&self.name()),
                    1 => GExpr::Call("f".into(), vec![self.expr(depth + 2)]),
                    2 => GExpr::scoped(GExpr::cap("c"), &self.name()),
                    _ => GExpr::cap(&self.name().replace('-', "_")),
                };
                GExpr::scoped(base, &self.name())
            }
        }
    }
    fn var(&mut self) -> GVar {
        if self.rng.chance(1, 3) {
            let base = if self.rng.chance(1, 2) { GExpr::cap("c") } else { self.expr(3) };
            let base = match base {
                // integer bases would read as "1.x": keep to forms the reference shows
                GExpr::Int(_) | GExpr::RegexCap(_) => GExpr::cap("c"),
                b => b,
            };
            GVar::s(base, &self.name())
        } else {
            GVar::u(&self.name())
        }
    }
    fn attrs(&mut self) -> Vec<GAttr> {
        (0..self.rng.range(1, 3))
            .map(|_| GAttr {
                name: self.name(),
                value: if self.rng.chance(1, 4) { None } else { Some(self.expr(1)) },
            })
            .collect()
    }
    fn block(&mut self, depth: usize) -> Vec<GStmt> {
        let n = if depth >= 5 { 0 } else { self.rng.below(4) };
        (0..n).map(|_| self.stmt(depth)).collect()
    }
    fn cond(&mut self) -> GCond {
        let kind = match self.rng.below(3) {
            0 => CondKind::Some,
            1 => CondKind::None,
            _ => CondKind::Bool,
        };
        GCond {
            kind,
            expr: self.expr(2),
            loc: Loc::default(),
        }
    }
    fn stmt(&mut self, depth: usize) -> GStmt {
        let k = self.rng.below(if depth >= 5 { 8 } else { 11 });
        stmt(match k {
            0 => StmtKind::Let(self.var(), self.expr(1)),
            1 => StmtKind::Var(self.var(), self.expr(1)),
            2 => StmtKind::Set(self.var(), self.expr(1)),
            3 => StmtKind::Node(self.var()),
            4 => StmtKind::Edge(self.expr(2), self.expr(2)),
            5 => StmtKind::AttrNode(self.expr(2), self.attrs()),
            6 => StmtKind::AttrEdge(self.expr(2), self.expr(2), self.attrs()),
            7 => StmtKind::Print((0..self.rng.range(1, 3)).map(|_| self.expr(2)).collect()),
            8 => StmtKind::Scan(
                self.expr(2),
                (0..self.rng.below(4))
                    .map(|_| GArm {
                        regex: (*self.rng.pick(REGEXES)).to_string(),
                        stmts: self.block(depth + 1),
                        loc: Loc::default(),
                    })
                    .collect(),
            ),
            9 => {
                let mut arms = vec![GIfArm {
                    conds: (0..self.rng.range(1, 3)).map(|_| self.cond()).collect(),
                    stmts: self.block(depth + 1),
                    loc: Loc::default(),
                }];
                for _ in 0..self.rng.below(3) {
                    arms.push(GIfArm {
                        conds: (0..self.rng.range(1, 2)).map(|_| self.cond()).collect(),
                        stmts: self.block(depth + 1),
                        loc: Loc::default(),
                    });
                }
                if self.rng.chance(1, 2) {
                    arms.push(GIfArm {
                        conds: vec![],
                        stmts: self.block(depth + 1),
                        loc: Loc::default(),
                    });
                }
                StmtKind::If(arms)
            }
            _ => StmtKind::For(GUVar::new(&self.name()), self.expr(2), self.block(depth + 1)),
        })
    }
    pub fn file(&mut self) -> GFile {
        let mut items = Vec::new();
        let mut used_globals = Vec::new();
        let mut used_short = Vec::new();
        let n = self.rng.range(1, 8);
        for _ in 0..n {
            match self.rng.below(10) {
                0 => {
                    let name = self.name();
                    if used_globals.contains(&name) {
                        continue;
                    }
                    used_globals.push(name.clone());
                    let quant = *self.rng.pick(&[Quant::One, Quant::Opt, Quant::Star, Quant::Plus]);
                    let default = if self.rng.chance(1, 3) { Some((*self.rng.pick(STRS)).to_string()) } else { None };
                    items.push(Item::Global(GGlobal { name, quant, default, loc: Loc::default() }));
                }
                1 => items.push(Item::Inherit(self.name())),
                2 => {
                    let name = self.name();
                    if used_short.contains(&name) {
                        continue;
                    }
                    used_short.push(name.clone());
                    items.push(Item::Shorthand(GShorthand { name, var: GUVar::new(&self.name()), attrs: self.attrs(), loc: Loc::default() }));
                }
                _ => {
                    let pi = self.rng.below(POOL.len());
                    self.caps = POOL[pi].caps.iter().map(|c| c.name.to_string()).collect();
                    let stmts = self.block(0);
                    items.push(Item::Stanza(GStanza { query: POOL[pi].text.to_string(), pool: Some(pi), stmts, loc: Loc::default() }));
                }
            }
        }
        if !items.iter().any(|i| matches!(i, Item::Stanza(_))) {
            items.push(Item::Stanza(GStanza { query: "(module)".into(), pool: None, stmts: self.block(0), loc: Loc::default() }));
        }
        GFile { items }
    }
}

// ------------------------------------------------------------------------------------------
// comparison

fn loc_eq(l: Loc, r: tree_sitter_graph::Location) -> bool {
    l.row == r.row && l.col == r.column
}

fn quant_eq(q: Quant, c: CaptureQuantifier) -> bool {
    matches!(
        (q, c),
        (Quant::One, CaptureQuantifier::One) | (Quant::Opt, CaptureQuantifier::ZeroOrOne) | (Quant::Star, CaptureQuantifier::ZeroOrMore) | (Quant::Plus, CaptureQuantifier::OneOrMore)
    )
}

type R = Result<(), String>;

fn cmp_uvar(g: &GUVar, a: &tsg::UnscopedVariable, what: &str) -> R {
    if a.name.as_str() != g.name {
        return Err(format!("{}: variable name {:?} parsed as {:?}", what, g.name, a.name.as_str()));
    }
    if !loc_eq(g.loc, a.location) {
        return Err(format!("{}: variable {} written at {:?}, recorded at ({}, {})", what, g.name, g.loc, a.location.row, a.location.column));
    }
    Ok(())
}

fn cmp_var(g: &GVar, a: &tsg::Variable, what: &str) -> R {
    match (g, a) {
        (GVar::Unscoped(u), tsg::Variable::Unscoped(v)) => cmp_uvar(u, v, what),
        (GVar::Scoped(scope, name, loc), tsg::Variable::Scoped(v)) => {
            if v.name.as_str() != name {
                return Err(format!("{}: scoped variable name {:?} parsed as {:?}", what, name, v.name.as_str()));
            }
            if !loc_eq(*loc, v.location) {
                return Err(format!("{}: scoped variable .{} written at {:?}, recorded at ({}, {})", what, name, loc, v.location.row, v.location.column));
            }
            cmp_expr(scope, &v.scope, what)
        }
        _ => Err(format!("{}: scoped/unscoped variable confusion for {}", what, g.display())),
    }
}

fn cmp_exprs(g: &[GExpr], a: &[tsg::Expression], what: &str) -> R {
    if g.len() != a.len() {
        return Err(format!("{}: {} elements written, {} parsed", what, g.len(), a.len()));
    }
    for (x, y) in g.iter().zip(a.iter()) {
        cmp_expr(x, y, what)?;
    }
    Ok(())
}

fn cmp_expr(g: &GExpr, a: &tsg::Expression, what: &str) -> R {
    use tsg::Expression as E;
    match (g, a) {
        (GExpr::Null, E::NullLiteral) | (GExpr::True, E::TrueLiteral) | (GExpr::False, E::FalseLiteral) => Ok(()),
        (GExpr::Int(i), E::IntegerConstant(c)) => {
            if *i == c.value {
                Ok(())
            } else {
                Err(format!("{}: integer {} parsed as {}", what, i, c.value))
            }
        }
        (GExpr::Str(s), E::StringConstant(c)) => {
            if *s == c.value {
                Ok(())
            } else {
                Err(format!("{}: string {:?} parsed as {:?}", what, s, c.value))
            }
        }
        (GExpr::List(xs), E::ListLiteral(l)) => cmp_exprs(xs, &l.elements, &format!("{} list", what)),
        (GExpr::Set(xs), E::SetLiteral(l)) => cmp_exprs(xs, &l.elements, &format!("{} set", what)),
        (GExpr::ListComp { elem, var, src, loc }, E::ListComprehension(c)) => {
            if !loc_eq(*loc, c.location) {
                return Err(format!("{}: list comprehension written at {:?}, recorded at ({}, {})", what, loc, c.location.row, c.location.column));
            }
            cmp_expr(elem, &c.element, what)?;
            cmp_uvar(var, &c.variable, what)?;
            cmp_expr(src, &c.value, what)
        }
        (GExpr::SetComp { elem, var, src, loc }, E::SetComprehension(c)) => {
            if !loc_eq(*loc, c.location) {
                return Err(format!("{}: set comprehension written at {:?}, recorded at ({}, {})", what, loc, c.location.row, c.location.column));
            }
            cmp_expr(elem, &c.element, what)?;
            cmp_uvar(var, &c.variable, what)?;
            cmp_expr(src, &c.value, what)
        }
        (GExpr::Capture(n, loc), E::Capture(c)) => {
            if c.name.as_str() != n {
                return Err(format!("{}: capture @{} parsed as @{}", what, n, c.name.as_str()));
            }
            if !loc_eq(*loc, c.location) {
                return Err(format!("{}: capture @{} written at {:?}, recorded at ({}, {})", what, n, loc, c.location.row, c.location.column));
            }
            Ok(())
        }
        (GExpr::Var(v), E::Variable(w)) => cmp_var(v, w, what),
        (GExpr::Call(f, args), E::Call(c)) => {
            if c.function.as_str() != f {
                return Err(format!("{}: function {} parsed as {}", what, f, c.function.as_str()));
            }
            cmp_exprs(args, &c.parameters, &format!("{} call {}", what, f))
        }
        (GExpr::RegexCap(i), E::RegexCapture(c)) => {
            if *i == c.match_index {
                Ok(())
            } else {
                Err(format!("{}: ${} parsed as ${}", what, i, c.match_index))
            }
        }
        (g, a) => Err(format!("{}: expression {} parsed as {}", what, g.display(), a)),
    }
}

fn cmp_attrs(g: &[GAttr], a: &[tsg::Attribute], what: &str) -> R {
    if g.len() != a.len() {
        return Err(format!("{}: {} attributes written, {} parsed", what, g.len(), a.len()));
    }
    for (x, y) in g.iter().zip(a.iter()) {
        if y.name.as_str() != x.name {
            return Err(format!("{}: attribute {} parsed as {}", what, x.name, y.name.as_str()));
        }
        match &x.value {
            None => {
                if y.value != tsg::Expression::TrueLiteral {
                    return Err(format!("{}: attribute {} without value parsed with value {}", what, x.name, y.value));
                }
            }
            Some(v) => cmp_expr(v, &y.value, &format!("{} attribute {}", what, x.name))?,
        }
    }
    Ok(())
}

fn cmp_stmts(g: &[GStmt], a: &[tsg::Statement], what: &str) -> R {
    if g.len() != a.len() {
        return Err(format!("{}: {} statements written, {} parsed", what, g.len(), a.len()));
    }
    for (i, (x, y)) in g.iter().zip(a.iter()).enumerate() {
        cmp_stmt(x, y, &format!("{} stmt#{}({})", what, i, x.kind.name()))?;
    }
    Ok(())
}

fn cmp_stmt(g: &GStmt, a: &tsg::Statement, what: &str) -> R {
    use tsg::Statement as S;
    let aloc = a.location();
    if !loc_eq(g.loc, aloc) {
        return Err(format!("{}: keyword written at {:?}, recorded at ({}, {})", what, g.loc, aloc.row, aloc.column));
    }
    match (&g.kind, a) {
        (StmtKind::Let(v, e), S::DeclareImmutable(s)) => {
            cmp_var(v, &s.variable, what)?;
            cmp_expr(e, &s.value, what)
        }
        (StmtKind::Var(v, e), S::DeclareMutable(s)) => {
            cmp_var(v, &s.variable, what)?;
            cmp_expr(e, &s.value, what)
        }
        (StmtKind::Set(v, e), S::Assign(s)) => {
            cmp_var(v, &s.variable, what)?;
            cmp_expr(e, &s.value, what)
        }
        (StmtKind::Node(v), S::CreateGraphNode(s)) => cmp_var(v, &s.node, what),
        (StmtKind::Edge(x, y), S::CreateEdge(s)) => {
            cmp_expr(x, &s.source, what)?;
            cmp_expr(y, &s.sink, what)
        }
        (StmtKind::AttrNode(n, attrs), S::AddGraphNodeAttribute(s)) => {
            cmp_expr(n, &s.node, what)?;
            cmp_attrs(attrs, &s.attributes, what)
        }
        (StmtKind::AttrEdge(x, y, attrs), S::AddEdgeAttribute(s)) => {
            cmp_expr(x, &s.source, what)?;
            cmp_expr(y, &s.sink, what)?;
            cmp_attrs(attrs, &s.attributes, what)
        }
        (StmtKind::Print(xs), S::Print(s)) => cmp_exprs(xs, &s.values, what),
        (StmtKind::Scan(e, arms), S::Scan(s)) => {
            cmp_expr(e, &s.value, what)?;
            if arms.len() != s.arms.len() {
                return Err(format!("{}: {} arms written, {} parsed", what, arms.len(), s.arms.len()));
            }
            for (i, (x, y)) in arms.iter().zip(s.arms.iter()).enumerate() {
                if y.regex.as_str() != x.regex {
                    return Err(format!("{}: regex {:?} parsed as {:?}", what, x.regex, y.regex.as_str()));
                }
                cmp_stmts(&x.stmts, &y.statements, &format!("{} arm{}", what, i))?;
            }
            Ok(())
        }
        (StmtKind::If(arms), S::If(s)) => {
            if arms.len() != s.arms.len() {
                return Err(format!("{}: {} if-arms written, {} parsed", what, arms.len(), s.arms.len()));
            }
            for (i, (x, y)) in arms.iter().zip(s.arms.iter()).enumerate() {
                if !loc_eq(x.loc, y.location) {
                    return Err(format!("{} arm{}: if/elif/else keyword written at {:?}, recorded at ({}, {})", what, i, x.loc, y.location.row, y.location.column));
                }
                if x.conds.len() != y.conditions.len() {
                    return Err(format!("{} arm{}: {} conditions written, {} parsed", what, i, x.conds.len(), y.conditions.len()));
                }
                for (c, d) in x.conds.iter().zip(y.conditions.iter()) {
                    match (c.kind, d) {
                        (CondKind::Some, tsg::Condition::Some { value, location }) | (CondKind::None, tsg::Condition::None { value, location }) | (CondKind::Bool, tsg::Condition::Bool { value, location }) => {
                            if !loc_eq(c.loc, *location) {
                                return Err(format!("{} arm{}: condition written at {:?}, recorded at ({}, {})", what, i, c.loc, location.row, location.column));
                            }
                            cmp_expr(&c.expr, value, &format!("{} arm{} condition", what, i))?
                        }
                        (k, d) => return Err(format!("{} arm{}: condition {:?} {} parsed as {}", what, i, k, c.expr.display(), d)),
                    }
                }
                cmp_stmts(&x.stmts, &y.statements, &format!("{} arm{}", what, i))?;
            }
            Ok(())
        }
        (StmtKind::For(v, e, body), S::ForIn(s)) => {
            cmp_uvar(v, &s.variable, what)?;
            cmp_expr(e, &s.value, what)?;
            cmp_stmts(body, &s.statements, &format!("{} body", what))
        }
        (k, a) => Err(format!("{}: statement {} parsed as {}", what, k.name(), a)),
    }
}

fn cmp_file(g: &GFile, f: &tsg::File) -> R {
    let gg = g.globals();
    if gg.len() != f.globals.len() {
        return Err(format!("{} globals written, {} parsed", gg.len(), f.globals.len()));
    }
    for (x, y) in gg.iter().zip(f.globals.iter()) {
        if y.name.as_str() != x.name || !quant_eq(x.quant, y.quantifier) || x.default != y.default {
            return Err(format!("global {}{} default {:?} parsed as {} {:?} default {:?}", x.name, x.quant.suffix(), x.default, y.name.as_str(), y.quantifier, y.default));
        }
        if !loc_eq(x.loc, y.location) {
            return Err(format!("global {} written at {:?}, recorded at ({}, {})", x.name, x.loc, y.location.row, y.location.column));
        }
    }
    let mut gi: Vec<String> = g.inherits().iter().map(|s| s.to_string()).collect();
    gi.sort();
    gi.dedup();
    let mut fi: Vec<String> = f.inherited_variables.iter().map(|i| i.as_str().to_string()).collect();
    fi.sort();
    if gi != fi {
        return Err(format!("inherit declarations {:?} parsed as {:?}", gi, fi));
    }
    // ... and each written name is found when looked up by its text
    for name in &gi {
        if !f.inherited_variables.contains(name.as_str()) {
            return Err(format!("inherit declaration {:?} is listed but not found when looked up by name", name));
        }
    }
    let gs = g.shorthands();
    if gs.len() != f.shorthands.iter().count() {
        return Err(format!("{} shorthands written, {} parsed", gs.len(), f.shorthands.iter().count()));
    }
    for s in gs {
        let a = f.shorthands.get(&Identifier::from(s.name.as_str())).ok_or(format!("shorthand {} not found", s.name))?;
        if !loc_eq(s.loc, a.location) {
            return Err(format!("shorthand {} written at {:?}, recorded at ({}, {})", s.name, s.loc, a.location.row, a.location.column));
        }
        cmp_uvar(&s.var, &a.variable, &format!("shorthand {}", s.name))?;
        cmp_attrs(&s.attrs, &a.attributes, &format!("shorthand {}", s.name))?;
    }
    let st = g.stanzas();
    if st.len() != f.stanzas.len() {
        return Err(format!("{} stanzas written, {} parsed", st.len(), f.stanzas.len()));
    }
    for (i, (x, y)) in st.iter().zip(f.stanzas.iter()).enumerate() {
        if !loc_eq(x.loc, y.range.start) {
            return Err(format!("stanza {} written at {:?}, recorded at ({}, {})", i, x.loc, y.range.start.row, y.range.start.column));
        }
        // query text extent: the compiled stanza query must have exactly the captures of the
        // written pattern (plus the internal full-match capture)
        let mine = matches::compile(&x.query).map_err(|e| format!("oracle cannot compile query: {}", e))?;
        let mut a: Vec<String> = mine.captures.iter().map(|(n, _, _)| n.clone()).collect();
        a.sort();
        let mut b: Vec<String> = y.query.capture_names().iter().map(|s| s.to_string()).filter(|n| n != "__tsg__full_match").collect();
        b.sort();
        if a != b || y.query.pattern_count() != 1 {
            return Err(format!("stanza {}: query captures {:?} parsed as {:?}", i, a, b));
        }
        cmp_stmts(&x.stmts, &y.statements, &format!("stanza {}", i))?;
    }
    Ok(())
}

fn stats(g: &GFile, out: &mut Out) {
    g.walk_stmts(&mut |_, depth, s| {
        out.feat(&format!("parsed:{}", s.kind.name()));
        if depth >= 4 {
            out.feat("parsed:nesting_ge4");
        }
    });
}

impl Prop for C07 {
    fn id(&self) -> &'static str {
        "C07"
    }
    fn cases(&self, cfg: &RunCfg) -> usize {
        match cfg.tier {
            Tier::Quick => 500,
            Tier::Thorough => 30_000,
        }
    }
    fn run_case(&self, _cfg: &RunCfg, idx: usize, rng: &mut Rng, out: &mut Out) {
        // program: free-form (3 of 4) or from the typed generator
        let mut file = if idx % 4 == 3 {
            let mut cfg = GenCfg::strict_full();
            cfg.fault_pct = 0;
            cfg.ast_mutation_pct = 0;
            gen_program(rng, &cfg).file
        } else {
            let mut g = FreeGen { rng, caps: vec![] };
            g.file()
        };
        file.number();
        let layouts = 8;
        for li in 0..layouts {
            let (text, comments, newlines, trailing) = if li == 0 { (print_house(&mut file), 0, 0, 0) } else { print_wild(&mut file, rng) };
            let parsed = catch(|| {
                let mut f = tsg::File::new(python());
                #[allow(deprecated)]
                let r = f.parse(&text);
                r.map(|_| f)
            });
            out.eval();
            let case = || json!({"dsl": text, "layout": if li == 0 { "house" } else { "random" }});
            match parsed {
                Err(p) => {
                    out.violation("C07:parse-panic", &format!("{}: {}", p.location, p.message), case());
                    return;
                }
                Ok(Err(e)) => {
                    out.violation("C07:valid-text-rejected", &format!("syntactically valid text rejected: {}", e), case());
                    return;
                }
                Ok(Ok(f)) => {
                    if let Err(why) = cmp_file(&file, &f) {
                        let sig = if why.contains("written at") { "C07:location-differs" } else { "C07:ast-differs" };
                        out.violation(sig, &why, case());
                        return;
                    }
                }
            }
            if comments > 0 {
                out.feat("layout:comments");
            }
            if newlines > 0 {
                out.feat("layout:newlines_in_gaps");
            }
            if trailing > 0 {
                out.feat("layout:trailing_commas");
            }
            if !text.is_ascii() {
                out.feat("layout:multibyte_text");
            }
            if text.contains('\t') {
                out.feat("layout:tabs");
            }
            out.nontrivial(hash_str(&text));
            if li == 1 && out.want_sample() && text.len() < 900 && text.len() > 150 {
                out.sample(json!({"dsl": text}));
            }
        }
        stats(&file, out);
        let t = print_house(&mut file);
        for kw in ["something", "none_left", "nonexistent", "noney", "somehow"] {
            if t.contains(&format!("if {}", kw)) || t.contains(&format!(", {}", kw)) {
                out.feat("keyword_prefixed_condition");
            }
        }
        if t.contains(" for_x") || t.contains(" in_list") || t.contains(" inx") || t.contains(" forx") {
            out.feat("keyword_prefixed_identifier");
        }
    }
}
