"""C18 sanitizer pass: the same harness workload under valgrind memcheck (Rust and C code)."""
import os, re, subprocess, time

def post(prop, tier, seed, total, run_dir, binary):
    cases = 120 if tier == "quick" else 1500
    out = os.path.join(run_dir, "memcheck.json")
    log = os.path.join(run_dir, "memcheck.log")
    t0 = time.time()
    cmd = ["valgrind", "--tool=memcheck", "--error-exitcode=0", "--leak-check=no", "--num-callers=30",
           "--log-file=" + log, binary, "run", prop, "--tier", tier, "--seed", str(seed + 7919),
           "--shard", "0", "--nshards", "1", "--out", out, "--cases", str(cases), "--case-cpu", "100000",
           "--replays", os.path.join(os.path.dirname(run_dir), "..", "replays")]
    try:
        p = subprocess.run(cmd, stdout=subprocess.DEVNULL, stderr=subprocess.DEVNULL, timeout=1500 if tier == "quick" else 7200)
        rc = p.returncode
    except subprocess.TimeoutExpired:
        total["inconclusive"]["memcheck: wall clock limit"] = 1
        return
    text = open(log, errors="replace").read() if os.path.exists(log) else ""
    m = re.search(r"ERROR SUMMARY: (\d+) errors", text)
    errors = int(m.group(1)) if m else None
    total["features"]["memcheck:trees"] = cases if rc == 0 else 0
    total["features"]["memcheck:seconds"] = int(time.time() - t0)
    if errors is None or rc != 0:
        total["inconclusive"]["memcheck: run did not complete (rc %s)" % rc] = 1
        return
    total["features"]["memcheck:error_reports"] = errors
    if errors > 0:
        # keep the first report as the witness
        first = text[text.find("=="):][:3000]
        rp = os.path.join("/verif/replays", prop)
        os.makedirs(rp, exist_ok=True)
        path = os.path.join(rp, "memcheck_seed%d.log" % seed)
        open(path, "w").write(text)
        total["violations"].append({"signature": "C18:memcheck-report", "message": "valgrind memcheck reported %d errors on the bundle workload: %s" % (errors, first[:600].replace("\n", " | ")), "replay": path})
