"""C13 thorough: the same calls under a plain release profile (wrapping arithmetic)."""
import os, sys
sys.path.insert(0, os.path.dirname(os.path.abspath(__file__)))
import sanitize

def post(prop, tier, seed, total, run_dir, binary):
    if tier != "thorough":
        return
    sanitize.run_variant("plain", prop, tier, seed, total, run_dir, 16, 600, timeout=1200)
