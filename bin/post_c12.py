"""C12 cross-process monitor: several OS processes (fresh hash seeds, fresh address space) must
produce the same canonical transcript for every case of the same seed."""
import os, subprocess, json, sys
sys.path.insert(0, os.path.dirname(os.path.abspath(__file__)))
import sanitize

def post(prop, tier, seed, total, run_dir, binary):
    if tier == "thorough":
        # the threaded part under ThreadSanitizer (std rebuilt with -Zbuild-std, C instrumented)
        sanitize.run_variant("tsan", prop, tier, seed, total, run_dir, 8, 80, timeout=2400)
    cases = 250 if tier == "quick" else 4000
    nproc = 8
    procs = [subprocess.Popen([binary, "c12-transcript", str(seed), str(cases)], stdout=subprocess.PIPE, stderr=subprocess.DEVNULL, text=True) for _ in range(nproc)]
    outs = []
    for p in procs:
        try:
            o, _ = p.communicate(timeout=1800)
        except subprocess.TimeoutExpired:
            p.kill()
            total["inconclusive"]["cross-process: wall clock limit"] = 1
            return
        if p.returncode != 0:
            total["inconclusive"]["cross-process: child exited with %s" % p.returncode] = 1
            return
        outs.append(o.strip().splitlines())
    ref = outs[0]
    if len(ref) != cases:
        total["inconclusive"]["cross-process: short transcript"] = 1
        return
    total["features"]["cross_process:processes"] = nproc
    total["features"]["cross_process:cases_compared"] = cases
    total["evaluations"] += cases * nproc
    for k, o in enumerate(outs[1:], 1):
        for i, (a, b) in enumerate(zip(ref, o)):
            if a != b:
                rp = os.path.join("/verif/replays", prop)
                os.makedirs(rp, exist_ok=True)
                path = os.path.join(rp, "crossproc_seed%d_case%d.txt" % (seed, i))
                a_txt = subprocess.run([binary, "c12-case", str(seed), str(i)], stdout=subprocess.PIPE, stderr=subprocess.DEVNULL, text=True).stdout
                b_txt = subprocess.run([binary, "c12-case", str(seed), str(i)], stdout=subprocess.PIPE, stderr=subprocess.DEVNULL, text=True).stdout
                open(path, "w").write("process A:\n%s\n\nprocess B:\n%s\n\nreplay: %s c12-case %d %d (run it several times)\n" % (a_txt, b_txt, binary, seed, i))
                total["violations"].append({"signature": "C12:cross-process-differs", "message": "transcript of case %d differs between two OS processes given the same seed (%s vs %s)" % (i, a, b), "replay": path})
                return
