//! C17 – graph, attribute and variable containers behave like their map/set models
//! (model-based testing over operation sequences; FFI-free, so it also runs under Miri).

use crate::util::{hash_str, mix, Out, Rng};
use crate::{Prop, RunCfg, Tier};
use serde_json::json;
use std::collections::{BTreeMap, BTreeSet};
use tree_sitter_graph::graph::{Graph, GraphNodeRef, Value};
use tree_sitter_graph::{Identifier, Variables};

pub struct C17;

#[derive(Clone, Debug, PartialEq, Eq, PartialOrd, Ord)]
enum V {
    Null,
    Bool(bool),
    Int(u32),
    Str(String),
    List(Vec<V>),
    Set(BTreeSet<V>),
    GNode(usize),
}

fn to_real(v: &V, refs: &[GraphNodeRef]) -> Value {
    match v {
        V::Null => Value::Null,
        V::Bool(b) => Value::Boolean(*b),
        V::Int(i) => Value::Integer(*i),
        V::Str(s) => Value::String(s.clone()),
        V::List(xs) => Value::List(xs.iter().map(|x| to_real(x, refs)).collect()),
        V::Set(xs) => Value::Set(xs.iter().map(|x| to_real(x, refs)).collect()),
        V::GNode(i) => Value::GraphNode(refs[*i]),
    }
}

fn from_real(v: &Value) -> V {
    match v {
        Value::Null => V::Null,
        Value::Boolean(b) => V::Bool(*b),
        Value::Integer(i) => V::Int(*i),
        Value::String(s) => V::Str(s.clone()),
        Value::List(xs) => V::List(xs.iter().map(from_real).collect()),
        Value::Set(xs) => V::Set(xs.iter().map(from_real).collect()),
        Value::GraphNode(r) => V::GNode(r.index()),
        Value::SyntaxNode(_) => V::Str("<syntax node>".into()),
    }
}

fn gen_value(rng: &mut Rng, nodes: usize, depth: usize) -> V {
    let top = if depth >= 2 { 5 } else { 8 };
    match rng.below(top) {
        0 => V::Null,
        1 => V::Bool(rng.chance(1, 2)),
        2 => V::Int(*rng.pick(&[0u32, 1, 2, 7, u32::MAX])),
        3 => V::Str((*rng.pick(&["", "a", "b", "é", "x y"])).to_string()),
        4 => {
            if nodes > 0 {
                V::GNode(rng.below(nodes))
            } else {
                V::Null
            }
        }
        5 | 6 => V::List((0..rng.below(3)).map(|_| gen_value(rng, nodes, depth + 1)).collect()),
        _ => V::Set((0..rng.below(3)).map(|_| gen_value(rng, nodes, depth + 1)).collect()),
    }
}

#[derive(Default, Clone)]
struct MNode {
    attrs: BTreeMap<String, V>,
    edges: BTreeMap<usize, BTreeMap<String, V>>,
}

const NAMES: &[&str] = &[
    "a", "b", "c", "name", "kind", "x-y", "_z",
    // names that share a long prefix, differ only in case, or extend one another
    "an_attribute_name_that_is_longer_than_32_bytes_first", "an_attribute_name_that_is_longer_than_32_bytes_second", "Kind", "name_range", "ünï-cødé",
];

/// compare everything observable about the graph with the model
fn compare_graph(graph: &Graph, model: &[MNode]) -> Result<(), String> {
    if graph.node_count() != model.len() {
        return Err(format!("node_count {} vs model {}", graph.node_count(), model.len()));
    }
    let refs: Vec<GraphNodeRef> = graph.iter_nodes().collect();
    if refs.len() != model.len() {
        return Err("iter_nodes length".into());
    }
    for (i, r) in refs.iter().enumerate() {
        if r.index() != i {
            return Err(format!("iter_nodes[{}] has index {}", i, r.index()));
        }
        let node = &graph[*r];
        let m = &model[i];
        let mut seen = BTreeMap::new();
        for (k, v) in node.attributes.iter() {
            if seen.insert(k.as_str().to_string(), from_real(v)).is_some() {
                return Err(format!("attribute {} iterated twice", k));
            }
        }
        if seen != m.attrs {
            return Err(format!("node {} attributes {:?} vs model {:?}", i, seen, m.attrs));
        }
        for name in NAMES {
            let got = node.attributes.get(*name).map(from_real);
            if got.as_ref() != m.attrs.get(*name) {
                return Err(format!("node {} get({}) = {:?} vs model {:?}", i, name, got, m.attrs.get(*name)));
            }
        }
        if node.edge_count() != m.edges.len() {
            return Err(format!("node {} edge_count {} vs model {}", i, node.edge_count(), m.edges.len()));
        }
        let mut last: Option<usize> = None;
        let mut listed = Vec::new();
        for (sink, edge) in node.iter_edges() {
            if let Some(l) = last {
                if sink.index() <= l {
                    return Err(format!("node {} edges not strictly ascending ({} after {})", i, sink.index(), l));
                }
            }
            last = Some(sink.index());
            let ea: BTreeMap<String, V> = edge.attributes.iter().map(|(k, v)| (k.as_str().to_string(), from_real(v))).collect();
            listed.push((sink.index(), ea));
        }
        let expect: Vec<(usize, BTreeMap<String, V>)> = m.edges.iter().map(|(k, v)| (*k, v.clone())).collect();
        if listed != expect {
            return Err(format!("node {} edges {:?} vs model {:?}", i, listed, expect));
        }
        for (j, s) in refs.iter().enumerate() {
            let has = node.get_edge(*s).is_some();
            if has != m.edges.contains_key(&j) {
                return Err(format!("get_edge({} -> {}) = {} vs model {}", i, j, has, !has));
            }
        }
    }
    Ok(())
}

fn graph_sequence(rng: &mut Rng, out: &mut Out, len: usize) -> Result<u64, (String, Vec<String>)> {
    let mut graph = Graph::new();
    let mut model: Vec<MNode> = Vec::new();
    let mut refs: Vec<GraphNodeRef> = Vec::new();
    let mut log: Vec<String> = Vec::new();
    let mut sig: u64 = 0;
    let dense = rng.chance(1, 2);
    let order = rng.below(3); // ascending / descending / random sinks
    let mut spill = false;
    for step in 0..len {
        let op = if model.is_empty() { 0 } else { rng.below(10) };
        match op {
            0 | 1 => {
                let r = graph.add_graph_node();
                log.push("add_graph_node".into());
                if r.index() != model.len() {
                    return Err((format!("add_graph_node returned index {} for node number {}", r.index(), model.len()), log));
                }
                refs.push(r);
                model.push(MNode::default());
                out.feat("op:add_graph_node");
            }
            2 | 3 | 4 => {
                let a = if dense { 0 } else { rng.below(model.len()) };
                let existing = model[a].edges.len();
                let b = match order {
                    0 => existing.min(model.len() - 1),
                    1 => (model.len() - 1).saturating_sub(existing),
                    _ => rng.below(model.len()),
                };
                log.push(format!("add_edge {} -> {}", a, b));
                let was = model[a].edges.contains_key(&b);
                let res = graph[refs[a]].add_edge(refs[b]);
                match (&res, was) {
                    (Ok(_), true) => return Err((format!("add_edge({} -> {}) reported a new edge but it existed", a, b), log)),
                    (Err(_), false) => return Err((format!("add_edge({} -> {}) reported an existing edge but it is new", a, b), log)),
                    _ => {}
                }
                // the returned reference must be the edge itself: write through it sometimes
                if rng.chance(1, 3) {
                    let name = *rng.pick(NAMES);
                    let v = gen_value(rng, model.len(), 0);
                    let edge = match res {
                        Ok(e) | Err(e) => e,
                    };
                    let r = edge.attributes.add(Identifier::from(name), to_real(&v, &refs));
                    let m = model[a].edges.entry(b).or_default();
                    check_add(r.map_err(|o| from_real(&o)), m, name, &v, &log)?;
                    log.push(format!("  .attributes.add {} = {:?}", name, v));
                } else {
                    model[a].edges.entry(b).or_default();
                }
                if model[a].edges.len() > 8 && !spill {
                    spill = true;
                    out.feat("spilled_past_inline_capacity");
                }
                out.feat(if was { "op:add_edge_existing" } else { "op:add_edge_new" });
            }
            5 | 6 => {
                let a = rng.below(model.len());
                let name = *rng.pick(NAMES);
                let v = if rng.chance(1, 3) {
                    model[a].attrs.get(name).cloned().unwrap_or_else(|| gen_value(rng, model.len(), 0))
                } else {
                    gen_value(rng, model.len(), 0)
                };
                log.push(format!("node {} attributes.add {} = {:?}", a, name, v));
                let r = graph[refs[a]].attributes.add(Identifier::from(name), to_real(&v, &refs));
                check_add(r.map_err(|o| from_real(&o)), &mut model[a].attrs, name, &v, &log)?;
                out.feat("op:attr_add");
            }
            7 | 8 => {
                let a = rng.below(model.len());
                let b = rng.below(model.len());
                let name = *rng.pick(NAMES);
                let v = gen_value(rng, model.len(), 0);
                log.push(format!("get_edge_mut {} -> {} add {} = {:?}", a, b, name, v));
                let exists = model[a].edges.contains_key(&b);
                match graph[refs[a]].get_edge_mut(refs[b]) {
                    Some(e) => {
                        if !exists {
                            return Err((format!("get_edge_mut({} -> {}) found an edge that was never added", a, b), log));
                        }
                        let r = e.attributes.add(Identifier::from(name), to_real(&v, &refs));
                        let m = model[a].edges.get_mut(&b).unwrap();
                        check_add(r.map_err(|o| from_real(&o)), m, name, &v, &log)?;
                        out.feat("op:get_edge_mut_hit");
                    }
                    None => {
                        if exists {
                            return Err((format!("get_edge_mut({} -> {}) lost an edge that was added", a, b), log));
                        }
                        out.feat("op:get_edge_mut_miss");
                    }
                }
            }
            _ => {
                // read-only probe of one node
                let a = rng.below(model.len());
                log.push(format!("probe {}", a));
                out.feat("op:probe");
            }
        }
        sig = mix(&[sig, op as u64, step as u64]);
        if let Err(e) = compare_graph(&graph, &model) {
            return Err((e, log));
        }
    }
    if out.want_sample() && len > 20 {
        out.sample(json!({"kind": "graph sequence", "ops": log.iter().take(25).collect::<Vec<_>>(), "total_ops": log.len()}));
    }
    Ok(mix(&[sig, hash_str(&log.join(";"))]))
}

fn check_add(r: Result<(), V>, m: &mut BTreeMap<String, V>, name: &str, v: &V, log: &[String]) -> Result<(), (String, Vec<String>)> {
    match m.get(name) {
        Some(old) if old != v => {
            // different value present: a conflict must be reported (the documented behaviour
            // also replaces the value and hands back the old one)
            match r {
                Ok(()) => return Err((format!("attributes.add({}) accepted a different value silently (old {:?}, new {:?})", name, old, v), log.to_vec())),
                Err(returned) => {
                    if &returned != old {
                        return Err((format!("attributes.add({}) conflict returned {:?}, previous value was {:?}", name, returned, old), log.to_vec()));
                    }
                }
            }
            m.insert(name.to_string(), v.clone());
        }
        Some(_) => {
            if r.is_err() {
                return Err((format!("attributes.add({}) reported a conflict for an equal value", name), log.to_vec()));
            }
        }
        None => {
            if r.is_err() {
                return Err((format!("attributes.add({}) reported a conflict although no value was present", name), log.to_vec()));
            }
            m.insert(name.to_string(), v.clone());
        }
    }
    Ok(())
}

fn simple_value(rng: &mut Rng) -> (Value, V) {
    let v = gen_value(rng, 0, 1);
    (to_real(&v, &[]), v)
}

/// Variables: nested sets see outer bindings and never change them. Recursion mirrors the
/// borrow structure (`nested` borrows its parent immutably).
fn vars_level(rng: &mut Rng, out: &mut Out, parent: Option<&Variables>, outer: &BTreeMap<String, V>, depth: usize, ops: usize, log: &mut Vec<String>) -> Result<(), String> {
    let mut vars = match parent {
        Some(p) => Variables::nested(p),
        None => Variables::new(),
    };
    let mut own: BTreeMap<String, V> = BTreeMap::new();
    let names = ["a", "b", "c", "d"];
    let check = |vars: &Variables, own: &BTreeMap<String, V>, log: &Vec<String>| -> Result<(), String> {
        for n in names {
            let got = vars.get(&Identifier::from(n)).map(from_real);
            let want = own.get(n).or_else(|| outer.get(n));
            if got.as_ref() != want {
                return Err(format!("get({}) = {:?}, model {:?} (depth {}, after {:?})", n, got, want, depth, log.last()));
            }
        }
        let listed: BTreeMap<String, V> = vars.iter().map(|(k, v)| (k.as_str().to_string(), from_real(v))).collect();
        if &listed != own {
            return Err(format!("iter() = {:?}, model {:?} (depth {})", listed, own, depth));
        }
        if vars.is_empty() != own.is_empty() {
            return Err(format!("is_empty() = {} with own bindings {:?}", vars.is_empty(), own));
        }
        Ok(())
    };
    for _ in 0..ops {
        match rng.below(8) {
            0 | 1 | 2 => {
                let n = *rng.pick(&names);
                let (rv, mv) = simple_value(rng);
                log.push(format!("d{} add {} = {:?}", depth, n, mv));
                let r = vars.add(Identifier::from(n), rv);
                if own.contains_key(n) {
                    if r.is_ok() {
                        return Err(format!("add({}) succeeded although the name is bound in this set", n));
                    }
                } else {
                    if r.is_err() {
                        return Err(format!("add({}) failed although the name is not bound in this set", n));
                    }
                    own.insert(n.to_string(), mv);
                }
                out.feat("op:vars_add");
            }
            3 => {
                let n = *rng.pick(&names);
                log.push(format!("d{} remove {}", depth, n));
                vars.remove(&Identifier::from(n));
                own.remove(n);
                out.feat("op:vars_remove");
            }
            4 => {
                if rng.chance(1, 4) {
                    log.push(format!("d{} clear", depth));
                    vars.clear();
                    own.clear();
                    out.feat("op:vars_clear");
                }
            }
            5 | 6 => {
                if depth < 3 {
                    let mut visible = outer.clone();
                    for (k, v) in &own {
                        visible.insert(k.clone(), v.clone());
                    }
                    log.push(format!("d{} nested {{", depth));
                    let inner_ops = rng.range(2, 10);
                    vars_level(rng, out, Some(&vars), &visible, depth + 1, inner_ops, log)?;
                    log.push("}".into());
                    out.feat("op:vars_nested");
                    if depth + 1 >= 2 {
                        out.feat("vars_nesting_depth_ge2");
                    }
                }
            }
            _ => {}
        }
        check(&vars, &own, log)?;
    }
    check(&vars, &own, log)?;
    Ok(())
}

impl Prop for C17 {
    fn id(&self) -> &'static str {
        "C17"
    }
    fn cases(&self, cfg: &RunCfg) -> usize {
        match cfg.tier {
            Tier::Quick => 2500,
            Tier::Thorough => 150_000,
        }
    }
    fn run_case(&self, _cfg: &RunCfg, idx: usize, rng: &mut Rng, out: &mut Out) {
        if idx % 3 != 2 {
            let len = rng.range(5, 200);
            match graph_sequence(rng, out, len) {
                Ok(h) => {
                    out.eval();
                    out.feat_n("graph_ops", len as u64);
                    if len >= 10 {
                        out.nontrivial(h);
                    }
                }
                Err((msg, log)) => {
                    out.eval();
                    let tail: Vec<&String> = log.iter().rev().take(40).rev().collect();
                    out.violation("C17:graph-container", &msg, json!({"last_ops": tail, "total_ops": log.len()}));
                }
            }
        } else {
            let mut log = Vec::new();
            let ops = rng.range(5, 60);
            let r = vars_level(rng, out, None, &BTreeMap::new(), 0, ops, &mut log);
            out.eval();
            out.feat_n("variables_ops", log.len() as u64);
            match r {
                Ok(()) => {
                    if log.len() >= 8 {
                        out.nontrivial(hash_str(&log.join(";")));
                    }
                    if out.want_sample() && log.len() > 10 {
                        out.sample(json!({"kind": "variables sequence", "ops": log.iter().take(25).collect::<Vec<_>>()}));
                    }
                }
                Err(msg) => {
                    let tail: Vec<&String> = log.iter().rev().take(40).rev().collect();
                    out.violation("C17:variables-container", &msg, json!({"last_ops": tail}));
                }
            }
        }
    }
}
