//! C12 – results are deterministic and a loaded file is reusable without cross-talk.
//! Canonical transcripts (AST / diagnostic / graph with numbering / error text) of repeated
//! loads, repeated, interleaved and concurrent executions must all equal the isolated one;
//! `tsgmon c12-transcript` prints per-case transcript hashes so that the driver can compare
//! several OS processes (fresh hash seeds, fresh address space).

use super::common::*;
use crate::gen::dsl::GenCfg;
use crate::gen::py;
use crate::model::value::MVal;
use crate::oracle::exec::{self, Loaded};
use crate::oracle::observe::observe_graph;
use crate::oracle::tree::{parse_python, python, TreeInfo};
use crate::util::{catch, hash_str, mix, Out, Rng};
use crate::{Prop, RunCfg, Tier};
use serde_json::json;
use std::collections::BTreeMap;
use std::path::Path;
use tree_sitter::Tree;
use tree_sitter_graph::ast::File;
use tree_sitter_graph::functions::Functions;
use tree_sitter_graph::{ExecutionConfig, Identifier, NoCancellation, Variables};

pub struct C12;

/// canonical text of a loaded file (hash-ordered containers sorted; no addresses)
fn ast_transcript(f: &File) -> String {
    let mut s = String::new();
    for g in &f.globals {
        s.push_str(&format!("global {:?}\n", g));
    }
    let mut inh: Vec<String> = f.inherited_variables.iter().map(|i| i.as_str().to_string()).collect();
    inh.sort();
    s.push_str(&format!("inherit {:?}\n", inh));
    let mut sh: Vec<String> = f.shorthands.iter().map(|x| format!("{:?}", x)).collect();
    sh.sort();
    for x in sh {
        s.push_str(&x);
        s.push('\n');
    }
    for st in &f.stanzas {
        s.push_str(&format!("stanza {:?} {:?} captures {:?}\n", st.range, st.statements, st.query.capture_names()));
    }
    s
}

fn load_transcript(text: &str) -> Result<(File, String), String> {
    match catch(|| File::from_str(python(), text)) {
        Ok(Ok(f)) => {
            let t = ast_transcript(&f);
            Ok((f, t))
        }
        Ok(Err(e)) => Err(format!("ERR {} || {}", e, e.display_pretty(Path::new("f.tsg"), text))),
        Err(p) => Err(format!("PANIC {} {}", p.location, p.message)),
    }
}

/// `zq_debug_attributes` among the globals is not a global: it switches the debug attributes on
const DEBUG_KEY: &str = "zq_debug_attributes";

fn exec_transcript(file: &File, tree: &Tree, source: &str, globals: &BTreeMap<String, MVal>, functions: &Functions, lazy: bool) -> String {
    let ti = TreeInfo::new(tree);
    let debug = globals.contains_key(DEBUG_KEY);
    let mut globals = globals.clone();
    globals.remove(DEBUG_KEY);
    let globals = &globals;
    let vars: Variables = exec::make_globals(globals, &|_| None);
    exec_transcript_with(file, tree, source, &vars, debug, functions, lazy)
}

/// the same with the caller's variable set as it is (e.g. one that has a history of additions and
/// removals behind it)
fn exec_transcript_with(file: &File, tree: &Tree, source: &str, vars: &Variables, debug: bool, functions: &Functions, lazy: bool) -> String {
    let ti = TreeInfo::new(tree);
    let before: BTreeMap<String, String> = vars.iter().map(|(k, v)| (k.as_str().to_string(), format!("{:?}", v))).collect();
    let r = catch(|| {
        let mut config = ExecutionConfig::new(functions, vars).lazy(lazy);
        if debug {
            config = config.debug_attributes(Identifier::from("dbg_l"), Identifier::from("dbg_v"), Identifier::from("dbg_m"));
        }
        match file.execute(tree, source, &config, &NoCancellation) {
            Ok(g) => match observe_graph(&g, &ti) {
                Ok(og) => {
                    // plus the order in which the pretty-printed form lists nodes, edges and
                    // attribute names (values are left out: sets of syntax nodes print in
                    // address order)
                    let pretty = g.pretty_print().to_string();
                    let order: Vec<&str> = pretty.lines().map(|l| if l.starts_with("  ") { l.split(": ").next().unwrap_or(l) } else { l }).collect();
                    format!("GRAPH {} PRETTY-ORDER {:016x}", og.to_json(), hash_str(&order.join("\n")))
                }
                Err(e) => format!("UNREADABLE {}", e),
            },
            Err(e) => format!("ERROR {}", e),
        }
    });
    let after: BTreeMap<String, String> = vars.iter().map(|(k, v)| (k.as_str().to_string(), format!("{:?}", v))).collect();
    let mut t = match r {
        Ok(t) => t,
        Err(p) => format!("PANIC {} {}", p.location, p.message),
    };
    if before != after {
        t.push_str(" GLOBALS-CHANGED");
    }
    t
}

/// Outcome and number of polls of one execution under a flag that fails from poll `fail_at` on.
fn exec_with_flag(file: &File, tree: &Tree, source: &str, globals: &BTreeMap<String, MVal>, functions: &Functions, lazy: bool, fail_at: u64) -> (String, u64) {
    let ti = TreeInfo::new(tree);
    let mut globals = globals.clone();
    globals.remove(DEBUG_KEY);
    let globals = &globals;
    let vars: Variables = exec::make_globals(globals, &|_| None);
    let flag = exec::CountingFlag::new(fail_at);
    let r = catch(|| {
        let config = ExecutionConfig::new(functions, &vars).lazy(lazy);
        match file.execute(tree, source, &config, &flag) {
            Ok(g) => match observe_graph(&g, &ti) {
                Ok(og) => format!("GRAPH {}", og.to_json()),
                Err(e) => format!("UNREADABLE {}", e),
            },
            Err(e) => format!("ERROR {}", e),
        }
    });
    let t = match r {
        Ok(t) => t,
        Err(p) => format!("PANIC {} {}", p.location, p.message),
    };
    (t, flag.count())
}

/// A caller-supplied function that returns a fixed string.
struct Constant(String);
impl tree_sitter_graph::functions::Function for Constant {
    fn call(&self, _graph: &mut tree_sitter_graph::graph::Graph, _source: &str, parameters: &mut dyn tree_sitter_graph::functions::Parameters) -> Result<tree_sitter_graph::graph::Value, tree_sitter_graph::ExecutionError> {
        parameters.finish()?;
        Ok(self.0.clone().into())
    }
}

/// One function table used for several executions; between them the caller registers another
/// implementation under the same name: every execution sees the table as it is at that time.
/// tokens joined by single white-space characters, `newlines` of which (chosen at random) are
/// line feeds: every variant has the same length in bytes and another line structure
fn respaced(tokens: &[&str], newlines: usize, rng: &mut Rng) -> String {
    let seps = tokens.len().saturating_sub(1);
    let mut idx: Vec<usize> = (0..seps).collect();
    rng.shuffle(&mut idx);
    let chosen: Vec<usize> = idx.into_iter().take(newlines.min(seps)).collect();
    let mut t = String::new();
    for (i, tok) in tokens.iter().enumerate() {
        t.push_str(tok);
        if i < seps {
            t.push(if chosen.contains(&i) { '\n' } else { ' ' });
        }
    }
    t.push('\n');
    t
}

/// everything a failing load or execution renders, plain and pretty, under fixed paths
fn rendering_transcript(text: &str, source: &str) -> String {
    let r = catch(|| {
        let file = match File::from_str(python(), text) {
            Ok(f) => f,
            Err(e) => return format!("LOAD {} || {}", e, e.display_pretty(Path::new("rules.tsg"), text)),
        };
        let tree = parse_python(source);
        let functions = Functions::stdlib();
        let vars = Variables::new();
        let mut t = String::new();
        for lazy in [false, true] {
            let config = ExecutionConfig::new(&functions, &vars).lazy(lazy);
            match file.execute(&tree, source, &config, &NoCancellation) {
                Ok(_) => t.push_str("OK;"),
                Err(e) => t.push_str(&format!("EXEC {} || {};", e, e.display_pretty(Path::new("src.py"), source, Path::new("rules.tsg"), text))),
            }
        }
        for e in tree_sitter_graph::parse_error::ParseError::all(&tree) {
            t.push_str(&format!("SYNTAX {} || {};", e.display(Path::new("src.py"), source), e.display_pretty(Path::new("src.py"), source)));
        }
        t
    });
    match r {
        Ok(t) => t,
        Err(p) => format!("PANIC {} {}", p.location, p.message),
    }
}

/// Diagnostics do not depend on what was rendered before: texts of one length and different
/// line structure, shown one after the other under the same path, read the same as on a thread
/// that has never rendered anything.
fn rendering_history(rng: &mut Rng, out: &mut Out) {
    const DSL: &[&str] = &[
        "(module) { node n attr (n) a = 1 print zq_undefined }",
        "(module) { node n attr (n) a = (plus \"x\" 1) attr (n) b = 2 }",
        "(identifier) @id { node n attr (n) t = (source-text @id) attr (n) t = (node-type @id) }",
        "(module) { node n let = 1 }",
        "(call function: (identifier) @f) { node n attr (n) callee = (source-text @f), arity = (no-such-function @f) }",
        "(module) { node n scan \"abc\" { \"b\" { attr (n) hit = $0 attr (n) hit = $1 } } }",
    ];
    const SRC: &[&str] = &["x = f(a, b, c, d) ; y = g(x, 1, 2)", "print(f(1, 2, [3, 4, 5], k = 6))", "x = (1 + ) ; y = g(x, ]"];
    let dsl_tokens: Vec<&str> = rng.pick(DSL).split(' ').collect();
    let src_raw: &str = *rng.pick(SRC);
    // in the source only the blanks after commas may become line feeds
    let src_tokens: Vec<&str> = src_raw.split(", ").collect();
    let src_variant = |rng: &mut Rng| -> String {
        let seps = src_tokens.len() - 1;
        let a = rng.below(seps);
        let mut t = String::new();
        for (i, tok) in src_tokens.iter().enumerate() {
            t.push_str(tok);
            if i < seps {
                t.push_str(if i == a { ",\n" } else { ", " });
            }
        }
        t.push('\n');
        t
    };
    let k = 2 + rng.below(3);
    let variants: Vec<(String, String)> = (0..3).map(|_| (respaced(&dsl_tokens, k, rng), src_variant(rng))).collect();
    // with history: one after the other on this (long-lived) thread
    let here: Vec<String> = variants.iter().map(|(t, s)| rendering_transcript(t, s)).collect();
    // without: each on a thread of its own
    for (i, (t, s)) in variants.iter().enumerate() {
        let (t2, s2) = (t.clone(), s.clone());
        let fresh = std::thread::spawn(move || rendering_transcript(&t2, &s2)).join().unwrap_or_else(|_| "THREAD-PANIC".into());
        out.evals(2);
        if fresh != here[i] {
            let earlier: Vec<&String> = variants.iter().take(i).map(|v| &v.0).collect();
            out.violation("C12:diagnostic-depends-on-history", &format!("rendering #{} on a thread that rendered other texts of the same length before differs from the rendering on a fresh thread: {:?} vs {:?}", i + 1, crate::util::trunc(&here[i], 400), crate::util::trunc(&fresh, 400)), json!({"dsl": t, "source": s, "rendered_before_on_the_same_thread": earlier, "kind": "rendering_history"}));
            return;
        }
        if here[i].starts_with("PANIC") {
            out.violation("C12:panic", &here[i], json!({"dsl": t, "source": s, "kind": "rendering_history"}));
            return;
        }
    }
    out.feat("diagnostics_of_equal_length_texts_compared_with_fresh_threads");
    if here.iter().any(|h| h.contains("EXEC")) {
        out.feat("rendering_history:execution_error");
    }
    if here.iter().any(|h| h.starts_with("LOAD")) {
        out.feat("rendering_history:load_error");
    }
    out.nontrivial(hash_str(&here.join("|")));
}

fn replaced_function(rng: &mut Rng, out: &mut Out) {
    let text = "(module) { node n attr (n) first = (zq-origin) node m attr (m) other = (zq-other), again = (zq-origin) }\n";
    let source = "pass\n";
    let tree = parse_python(source);
    let file = match File::from_str(python(), text) {
        Ok(f) => f,
        Err(_) => {
            out.inconclusive("harness: directed program rejected");
            return;
        }
    };
    let mut functions = stdlib();
    functions.add(Identifier::from("zq-other"), Constant("other".into()));
    let vars = Variables::new();
    for round in 0..4 {
        let tag = format!("origin-{}-{}", round, rng.below(1000));
        functions.add(Identifier::from("zq-origin"), Constant(tag.clone()));
        for lazy in [false, true] {
            let r = catch(|| {
                let config = ExecutionConfig::new(&functions, &vars).lazy(lazy);
                file.execute(&tree, source, &config, &NoCancellation).map(|g| g.pretty_print().to_string())
            });
            out.eval();
            let case = json!({"dsl": text, "round": round, "lazy": lazy, "registered": tag});
            match r {
                Ok(Ok(p)) => {
                    if p.matches(&format!("\"{}\"", tag)).count() != 2 {
                        out.violation("C12:replaced-function-not-seen", &format!("round {}: the function registered last returns {:?}; the graph is {}", round, tag, crate::util::trunc(&p, 300)), case);
                        return;
                    }
                }
                Ok(Err(e)) => {
                    out.violation("C12:replaced-function-not-seen", &format!("execution failed: {}", e), case);
                    return;
                }
                Err(p) => {
                    out.violation("C12:panic:functions", &format!("{}: {}", p.location, p.message), case);
                    return;
                }
            }
        }
    }
    out.feat("function_replaced_between_executions");
}

/// programs where "which error is reported" has room to vary
fn special_text(rng: &mut Rng) -> (String, &'static str) {
    match rng.below(14) {
        6 => (
            "(identifier) @id { node n attr (n) idx = (named-child-index @id), txt = (source-text @id), cnt = (named-child-count @id) }\n(argument_list (_) @arg) { node m attr (m) arg_idx = (named-child-index @arg), ty = (node-type @arg) }\n".into(),
            "syntax_functions_on_every_node",
        ),
        7 => ("(module) @m { node n attr (n) Kind = 1, kind = 2, KIND = 3, kinD = 4, name = 5, Name = 6, def = 7, defs = 8, def_kind = 9, a1 = 10, a10 = 11, a = 12 node k edge n -> k attr (n -> k) Ab = 1, aB = 2, ab = 3 print @m }\n".into(), "attribute_names_differing_in_case"),
        8 => (
            "(module) @m { node n attr (n) a = (node), b = (node), c = (node), d = (node) let x = (node) let y = (node) attr (n) f = y, e = x attr ((node)) g = (node), h = (node) print @m }\n".into(),
            "node_creating_values_in_one_statement",
        ),
        10 | 11 | 12 => {
            // files that differ only in the text of one nested statement (same stanza and statement
            // positions): what one of them reports must not depend on which ran before
            let value = *rng.pick(&["(plus 1 2)", "(plus 1 \"x\")", "(plus \"y\" 2)", "(no-such-function 1)", "(plus 3 4)"]);
            let block = *rng.pick(&["if #true", "for q in [1]", "scan \"a\" { \"a\""]);
            let close = if block.starts_with("scan") { " }" } else { "" };
            (format!("(module)\n{{\n  node n\n  {} {{\n    attr (n) val = {}\n  }}{}\n}}\n", block, value, close), "same_layout_different_statement_text")
        }
        13 => {
            let k = rng.below(6);
            let pad = " ".repeat(rng.below(4));
            (format!("{}(module) {{ {}scan \"a\" {{ \"(\" {{ }} }} }}\n", "\n".repeat(k), pad), "invalid_scan_regex_at_varying_positions")
        }
        9 => (
            // with debug attributes: a conflict between an attribute the program sets and one the
            // executor wrote, in an execution that follows successful ones on other trees
            "(pass_statement) { let x = (node) attr (x) dbg_l = \"mine\", dbg_v = \"mine too\" }\n(identifier) { node y attr (y) dbg_l = \"mine\" }\n(integer) { node z attr (z) k = 1 }\n".into(),
            "conflict_with_a_debug_attribute",
        ),
        0 => ("(call function: (_) @zeta arguments: (_) @alpha) @mid { node n }\n".into(), "several_unused_captures"),
        1 => ("(assignment left: (_) @l right: (_) @r) @a { node n }\n(identifier) @q @p { node m }\n".into(), "several_unused_captures"),
        2 => (
            "(identifier) @id { let @id.alpha = 1 let @id.beta = 2 let @id.gamma = 3 }\n(identifier) @id2 { let @id2.beta = 4 let @id2.gamma = 5 let @id2.alpha = 6 }\n".into(),
            "several_duplicate_scoped_names",
        ),
        3 => (
            "(module) @m { node n attr (n) a = 1, b = 2, c = 3 attr (n) c = 30, a = 10, b = 20 }\n".into(),
            "several_conflicting_attributes",
        ),
        4 => (
            "attribute s1 = x => a1 = x\nattribute s2 = x => a2 = x\nattribute s3 = x => a3 = x, s1 = x\n(module) @m { node n attr (n) s3 = 1, s2 = 2 print @m }\n".into(),
            "several_shorthands",
        ),
        _ => (
            "global g1\nglobal g2\nglobal g3\n(module) @m { node n attr (n) a = g1, b = g2, c = g3 print @m }\n".into(),
            "several_missing_globals",
        ),
    }
}

pub struct CaseInput {
    pub text: String,
    pub sources: Vec<String>,
    pub short_lived: Vec<String>,
    pub globals: BTreeMap<String, MVal>,
    pub kind: &'static str,
}

pub fn make_case(rng: &mut Rng) -> CaseInput {
    let (text, globals, kind) = if rng.chance(1, 4) {
        let (t, k) = special_text(rng);
        let mut g = BTreeMap::new();
        if k == "conflict_with_a_debug_attribute" {
            g.insert(DEBUG_KEY.to_string(), MVal::Bool(true));
        }
        (t, g, k)
    } else {
        let mut cfg = GenCfg::order_insensitive();
        cfg.fault_pct = 30;
        cfg.print = false;
        let c = build_case(rng, &cfg, 20, 0, 1);
        (c.text, c.prog.globals, "generated")
    };
    let sources: Vec<String> = if kind == "conflict_with_a_debug_attribute" {
        vec!["x\n".to_string(), "pass\n".to_string(), "1\npass\n".to_string()]
    } else {
        (0..3).map(|_| py::gen_any_source(rng, 8, 15)).collect()
    };
    // similar shapes, different children positions: same allocation sizes, recycled addresses
    let short_lived = (0..5).map(|k| format!("{}f(a{}, b, c)\nx = y\n", "pass\n".repeat(k % 3), k)).collect();
    CaseInput { text, sources, short_lived, globals, kind }
}

/// transcript of one case as an isolated run (load + both modes on the first tree)
pub fn isolated_transcript(c: &CaseInput) -> String {
    let functions = stdlib();
    match load_transcript(&c.text) {
        Err(e) => e,
        Ok((file, ast)) => {
            let tree = parse_python(&c.sources[0]);
            let a = exec_transcript(&file, &tree, &c.sources[0], &c.globals, &functions, false);
            let b = exec_transcript(&file, &tree, &c.sources[0], &c.globals, &functions, true);
            format!("{}\nSTRICT {}\nLAZY {}", ast, a, b)
        }
    }
}

/// entry point for the cross-process comparison
pub fn print_transcript_hashes(seed: u64, cases: usize) {
    for idx in 0..cases {
        let mut rng = Rng::new(crate::case_seed(seed, "C12-transcript", 0, idx));
        let c = make_case(&mut rng);
        let t = isolated_transcript(&c);
        println!("{} {:016x}", idx, hash_str(&t));
    }
}

pub fn print_transcript_case(seed: u64, idx: usize) {
    let mut rng = Rng::new(crate::case_seed(seed, "C12-transcript", 0, idx));
    let c = make_case(&mut rng);
    println!("--- dsl\n{}\n--- source\n{}\n--- transcript\n{}", c.text, c.sources[0], isolated_transcript(&c));
}

impl Prop for C12 {
    fn id(&self) -> &'static str {
        "C12"
    }
    fn cases(&self, cfg: &RunCfg) -> usize {
        match cfg.tier {
            Tier::Quick => 250,
            Tier::Thorough => 12_000,
        }
    }
    fn run_case(&self, _cfg: &RunCfg, idx: usize, rng: &mut Rng, out: &mut Out) {
        if idx % 20 == 9 {
            replaced_function(rng, out);
            return;
        }
        if idx % 20 == 4 {
            rendering_history(rng, out);
            return;
        }
        let c = make_case(rng);
        let cj = || json!({"dsl": c.text, "source": c.sources[0], "globals": c.globals.iter().map(|(k, v)| (k.clone(), v.to_json())).collect::<serde_json::Map<_, _>>(), "kind": c.kind});
        out.feat(&format!("kind:{}", c.kind));
        // loading is deterministic
        if c.kind == "invalid_scan_regex_at_varying_positions" {
            // another text with the same defect further down is loaded first
            let _ = load_transcript(&format!("\n\n\n; moved\n{}", c.text));
        }
        let first = load_transcript(&c.text);
        for _ in 0..3 {
            let again = load_transcript(&c.text);
            out.eval();
            let same = match (&first, &again) {
                (Ok((_, a)), Ok((_, b))) => a == b,
                (Err(a), Err(b)) => a == b,
                _ => false,
            };
            if !same {
                let (a, b) = (first.as_ref().map(|x| x.1.clone()).unwrap_or_else(|e| e.clone()), again.as_ref().map(|x| x.1.clone()).unwrap_or_else(|e| e.clone()));
                out.violation("C12:load-differs", &format!("two loads of the same text differ: {:?} vs {:?}", crate::util::trunc(&a, 300), crate::util::trunc(&b, 300)), cj());
                return;
            }
        }
        let file = match first {
            Err(e) => {
                out.feat("rejected_file_diagnostic_stable");
                if e.starts_with("PANIC") {
                    out.violation("C12:load-panic", &e, cj());
                    return;
                }
                // the same defect at another place in another text: the diagnostic is about *this*
                // text, whatever was loaded before in this process
                if c.kind == "invalid_scan_regex_at_varying_positions" {
                    let row = c.text.chars().take_while(|ch| *ch == '\n').count();
                    let want = format!("f.tsg:{}:", row + 1);
                    if !e.contains(&want) {
                        out.violation("C12:diagnostic-of-another-load", &format!("the invalid regex sits on line {} of this text; the diagnostic reads {:?}", row + 1, crate::util::trunc(&e, 300)), cj());
                        return;
                    }
                    out.feat("invalid_regex_cited_where_it_is");
                }
                out.nontrivial(hash_str(&c.text));
                return;
            }
            Ok((f, _)) => f,
        };
        let functions = stdlib();
        let trees: Vec<Tree> = c.sources.iter().map(|s| parse_python(s)).collect();
        for lazy in [false, true] {
            let mode = if lazy { "lazy" } else { "strict" };
            // isolated reference per tree: a freshly loaded file, one execution
            // (computed in a thread of its own, so that thread-local state of this long-running
            // shard thread cannot leak into the reference)
            let reference: Vec<String> = {
                let text = c.text.clone();
                let sources = c.sources.clone();
                let globals = c.globals.clone();
                std::thread::spawn(move || {
                    let functions = stdlib();
                    let mut v = Vec::new();
                    for src in &sources {
                        match load_transcript(&text) {
                            Ok((fresh, _)) => {
                                let t = parse_python(src);
                                v.push(exec_transcript(&fresh, &t, src, &globals, &functions, lazy));
                            }
                            Err(e) => v.push(e),
                        }
                    }
                    v
                })
                .join()
                .unwrap_or_default()
            };
            if reference.len() != trees.len() {
                out.inconclusive("harness: reference thread failed");
                return;
            }
            out.evals(trees.len() as u64);
            if reference.iter().any(|r| r.contains("GLOBALS-CHANGED")) {
                out.violation(&format!("C12:caller-globals-changed:{}", mode), "the caller's variable set changed", cj());
                return;
            }
            // repeated on the shared file
            let mut heavy = false;
            for rep in 0..3 {
                let started = std::time::Instant::now();
                let t = exec_transcript(&file, &trees[0], &c.sources[0], &c.globals, &functions, lazy);
                // a single execution that takes long gets the short history only (the watchdog of
                // this harness is CPU time per case)
                if started.elapsed().as_millis() > 120 {
                    heavy = true;
                }
                out.eval();
                if t != reference[0] {
                    out.violation(&format!("C12:repetition-differs:{}", mode), &format!("execution #{} of one loaded file differs from an isolated run: {:?} vs {:?}", rep + 1, crate::util::trunc(&t, 300), crate::util::trunc(&reference[0], 300)), cj());
                    return;
                }
            }
            // interleaved over three trees (and alternating modes in between)
            for round in 0..2 {
                for i in [2usize, 0, 1] {
                    let _ = exec_transcript(&file, &trees[(i + 1) % 3], &c.sources[(i + 1) % 3], &c.globals, &functions, !lazy);
                    let t = exec_transcript(&file, &trees[i], &c.sources[i], &c.globals, &functions, lazy);
                    out.evals(2);
                    if t != reference[i] {
                        out.violation(&format!("C12:interleaving-differs:{}", mode), &format!("round {} tree {}: {:?} vs isolated {:?}", round, i, crate::util::trunc(&t, 300), crate::util::trunc(&reference[i], 300)), cj());
                        return;
                    }
                }
            }
            // eight threads sharing the file
            let results: Vec<(usize, String)> = std::thread::scope(|s| {
                let mut hs = Vec::new();
                for th in 0..8usize {
                    let file = &file;
                    let trees = &trees;
                    let c = &c;
                    let functions = &functions;
                    hs.push(s.spawn(move || {
                        let i = th % 3;
                        (i, exec_transcript(file, &trees[i], &c.sources[i], &c.globals, functions, lazy))
                    }));
                }
                hs.into_iter().map(|h| h.join().unwrap_or((0, "THREAD-PANIC".into()))).collect()
            });
            out.evals(8);
            for (i, t) in results {
                if t != reference[i] {
                    out.violation(&format!("C12:concurrent-differs:{}", mode), &format!("a concurrent execution on tree {} differs from the isolated run: {:?} vs {:?}", i, crate::util::trunc(&t, 300), crate::util::trunc(&reference[i], 300)), cj());
                    return;
                }
            }
            if heavy {
                out.feat("slow_execution_short_history_only");
                continue;
            }
            // a sequence of short-lived trees (addresses get recycled): every execution must equal
            // a run made in a fresh thread (fresh thread-local state) on its own parse
            for k in 0..5usize {
                let src = &c.short_lived[k];
                let expect = {
                    let text = c.text.clone();
                    let src2 = src.clone();
                    let globals = c.globals.clone();
                    std::thread::spawn(move || {
                        let functions = stdlib();
                        match load_transcript(&text) {
                            Ok((f, _)) => {
                                let t = parse_python(&src2);
                                exec_transcript(&f, &t, &src2, &globals, &functions, lazy)
                            }
                            Err(e) => e,
                        }
                    })
                    .join()
                    .unwrap_or_else(|_| "THREAD-PANIC".into())
                };
                let got = {
                    let t = parse_python(src);
                    exec_transcript(&file, &t, src, &c.globals, &functions, lazy)
                    // the tree is dropped here
                };
                out.evals(2);
                if got != expect {
                    let mut cc = cj();
                    cc["short_lived_source"] = json!(src);
                    out.violation(&format!("C12:short-lived-tree-differs:{}", mode), &format!("execution #{} on a sequence of short-lived trees differs from a run in a fresh thread: {:?} vs {:?}", k + 1, crate::util::trunc(&got, 300), crate::util::trunc(&expect, 300)), cc);
                    return;
                }
            }
            out.feat("short_lived_trees_sequence");
            // a caller-supplied cancellation flag sees the same polls, and the execution gives the
            // same outcome, every time: never-firing flag first (number of polls P), then flags
            // that fire at a few polls k <= P, each repeated and interleaved with other runs
            {
                let (t0, p0) = exec_with_flag(&file, &trees[0], &c.sources[0], &c.globals, &functions, lazy, u64::MAX);
                out.eval();
                let mut ks: Vec<u64> = vec![u64::MAX];
                if p0 > 0 {
                    ks.extend([1, (p0 + 1) / 2, p0]);
                }
                for k in ks {
                    let (first, pf) = if k == u64::MAX { (t0.clone(), p0) } else { exec_with_flag(&file, &trees[0], &c.sources[0], &c.globals, &functions, lazy, k) };
                    for rep in 0..3 {
                        if rep == 1 {
                            let _ = exec_with_flag(&file, &trees[1], &c.sources[1], &c.globals, &functions, !lazy, u64::MAX);
                        }
                        let (again, pa) = exec_with_flag(&file, &trees[0], &c.sources[0], &c.globals, &functions, lazy, k);
                        out.eval();
                        if again != first || pa != pf {
                            let mut cc = cj();
                            cc["flag_fails_from_poll"] = json!(if k == u64::MAX { -1i64 } else { k as i64 });
                            out.violation(&format!("C12:polls-or-outcome-differ:{}", mode), &format!("repetition {} under an identical cancellation flag: {} polls and {:?}, before {} polls and {:?}", rep + 1, pa, crate::util::trunc(&again, 200), pf, crate::util::trunc(&first, 200)), cc);
                            return;
                        }
                    }
                }
                out.feat("identical_cancellation_flag_repetitions");
            }
            // the caller's globals vary between executions of the one loaded file (a defaulted
            // global supplied / not supplied, a global dropped): every execution must equal an
            // isolated run with the same globals
            let defaulted: Vec<String> = regex::Regex::new(r#"(?m)^\s*global\s+([A-Za-z_][A-Za-z0-9_-]*)[?*+]?\s*=\s*""#).unwrap().captures_iter(&c.text).map(|m| m[1].to_string()).collect();
            let mut variants: Vec<BTreeMap<String, MVal>> = Vec::new();
            if let Some(d) = defaulted.iter().find(|d| c.globals.contains_key(*d)) {
                let mut g = c.globals.clone();
                g.remove(d);
                variants.push(g);
            }
            if let Some(d) = defaulted.iter().find(|d| !c.globals.contains_key(*d)) {
                let mut g = c.globals.clone();
                g.insert(d.clone(), MVal::str("supplied instead of the default"));
                variants.push(g);
            }
            if variants.is_empty() {
                if let Some(k) = c.globals.keys().next().cloned() {
                    let mut g = c.globals.clone();
                    g.remove(&k);
                    variants.push(g);
                }
            }
            if !variants.is_empty() {
                let mut order: Vec<&BTreeMap<String, MVal>> = Vec::new();
                for v in &variants {
                    order.push(v);
                    order.push(&c.globals);
                }
                order.push(&variants[0]);
                for (step, g) in order.iter().enumerate() {
                    let expect = {
                        let text = c.text.clone();
                        let src2 = c.sources[0].clone();
                        let globals = (*g).clone();
                        std::thread::spawn(move || {
                            let functions = stdlib();
                            match load_transcript(&text) {
                                Ok((f, _)) => {
                                    let t = parse_python(&src2);
                                    exec_transcript(&f, &t, &src2, &globals, &functions, lazy)
                                }
                                Err(e) => e,
                            }
                        })
                        .join()
                        .unwrap_or_else(|_| "THREAD-PANIC".into())
                    };
                    let got = exec_transcript(&file, &trees[0], &c.sources[0], g, &functions, lazy);
                    out.evals(2);
                    if got != expect {
                        let mut cc = cj();
                        cc["globals_of_this_execution"] = json!(g.iter().map(|(k, v)| (k.clone(), v.to_json())).collect::<serde_json::Map<_, _>>());
                        out.violation(&format!("C12:varying-globals-differ:{}", mode), &format!("execution #{} of one loaded file with another set of globals differs from an isolated run with that set: {:?} vs {:?}", step + 1, crate::util::trunc(&got, 300), crate::util::trunc(&expect, 300)), cc);
                        return;
                    }
                }
                // ... and one long-lived variable set that is brought from one set of globals to
                // the next by removing and adding single variables
                let mut long = Variables::new();
                let mut present: Vec<String> = Vec::new();
                for (step, g) in order.iter().enumerate() {
                    let debug = g.contains_key(DEBUG_KEY);
                    // oldest first: what was added first is removed first
                    for k in present.clone() {
                        if !g.contains_key(&k) || step % 2 == 1 {
                            long.remove(&Identifier::from(k.as_str()));
                            present.retain(|x| x != &k);
                        }
                    }
                    for (k, v) in g.iter() {
                        if k != DEBUG_KEY && !present.contains(k) {
                            if let Some(val) = exec::to_value(v, &|_| None) {
                                let _ = long.add(Identifier::from(k.as_str()), val);
                                present.push(k.clone());
                            }
                        }
                    }
                    let got = exec_transcript_with(&file, &trees[0], &c.sources[0], &long, debug, &functions, lazy);
                    let expect = exec_transcript(&file, &trees[0], &c.sources[0], g, &functions, lazy);
                    out.evals(2);
                    if got != expect {
                        let mut cc = cj();
                        cc["globals_of_this_execution"] = json!(g.iter().map(|(k, v)| (k.clone(), v.to_json())).collect::<serde_json::Map<_, _>>());
                        out.violation(&format!("C12:long-lived-variables-differ:{}", mode), &format!("execution #{} with a variable set that was brought to these globals by removals and additions differs from a run with a fresh set holding the same globals: {:?} vs {:?}", step + 1, crate::util::trunc(&got, 300), crate::util::trunc(&expect, 300)), cc);
                        return;
                    }
                }
                out.feat("long_lived_variable_set_with_removals");
                out.feat("varying_globals_sequence");
                if !defaulted.is_empty() {
                    out.feat("varying_globals_with_a_defaulted_global");
                }
            }
            if reference[0].starts_with("ERROR") {
                out.feat(&format!("stable_error:{}", mode));
            } else if reference[0].starts_with("GRAPH") {
                out.feat(&format!("stable_graph:{}", mode));
            } else if reference[0].starts_with("PANIC") {
                out.violation(&format!("C12:panic:{}", mode), &reference[0], cj());
                return;
            }
        }
        out.feat("concurrent_threads_8");
        out.nontrivial(mix(&[hash_str(&c.text), hash_str(&c.sources[0])]));
        if out.want_sample() && c.text.len() < 1200 {
            out.sample(cj());
        }
    }
}
