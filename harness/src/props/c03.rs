//! C03 – each query match runs its stanza exactly once with correctly bound captures.
//! Every stanza body is a probe block recording its captures; the multiset of probe nodes per
//! stanza (both modes) and the reports of the public match visitors are compared with the
//! matches plain tree-sitter enumerates for the stanza's own pattern.

use super::common::*;
use crate::gen::ast::*;
use crate::gen::print::{print_house, print_wild};
use crate::gen::py;
use crate::gen::query::{quant_of, POOL};
use crate::model::interp::MatchInfo;
use crate::model::value::*;
use crate::oracle::exec::{self, ExecOpts, Loaded, Real};
use crate::oracle::tree::{parse_python, TreeInfo};
use crate::util::{catch, hash_str, mix, Out, Rng};
use crate::{Prop, RunCfg, Tier};
use serde_json::json;
use std::collections::BTreeMap;
use tree_sitter::CaptureQuantifier;

pub struct C03;

const EMPTY_BLOCK_QUERIES: &[&str] = &["(identifier) @_ignored", "(module)", "(pass_statement)", "(call function: (_) @_f)"];

/// Matches whose captured nodes are different syntax nodes of one kind that start at the same
/// position (left-nested chains `a.b.c.d`, `1 + 2 + 3`, `f(1)(2)`, `x[0][1]`): the block links
/// the graph nodes of the two captured nodes, so every match leaves its own edge.
fn nested_chain_edges(rng: &mut Rng, out: &mut Out) {
    let (kind, field, links): (&str, &str, &[&str]) = *rng.pick(&[
        ("attribute", "object", &[".b", ".c", ".d", ".e", ".f", ".g"][..]),
        ("binary_operator", "left", &[" + 2", " - 3", " * 4", " + 5", " - 6", " * 7"][..]),
        ("call", "function", &["(1)", "(2, 3)", "()", "(k=4)", "(5)", "(6)"][..]),
        ("subscript", "value", &["[0]", "[1]", "[k]", "[2:3]", "[4]", "[5]"][..]),
    ]);
    let mut source = String::new();
    for _ in 0..rng.range(1, 3) {
        let depth = rng.range(2, 6);
        let mut line = String::from(*rng.pick(&["a", "x1", "é"]));
        for d in 0..depth {
            line.push_str(links[d % links.len()]);
        }
        if rng.chance(1, 3) {
            line = format!("y = {}", line);
        }
        source.push_str(&line);
        source.push('\n');
    }
    let with_attr = rng.chance(1, 2);
    let text = format!(
        "({k}) @a\n{{\n  node @a.zz_n\n  attr (@a.zz_n) self = @a\n}}\n({k} {f}: ({k}) @inner) @outer\n{{\n  edge @outer.zz_n -> @inner.zz_n\n{attr}}}\n",
        k = kind,
        f = field,
        attr = if with_attr { "  attr (@outer.zz_n -> @inner.zz_n) inner_end = (end-column @inner)\n" } else { "" }
    );
    let tree = parse_python(&source);
    let ti = TreeInfo::new(&tree);
    if ti.anomaly.is_some() {
        out.inconclusive("tree-sitter anomaly");
        return;
    }
    let pattern = format!("({k} {f}: ({k}) @inner) @outer", k = kind, f = field);
    let sq = match crate::oracle::matches::compile(&pattern) {
        Ok(q) => q,
        Err(e) => {
            out.inconclusive(&format!("oracle could not compile a query: {}", e));
            return;
        }
    };
    let ms = crate::oracle::matches::enumerate(&sq, &tree, &source, &ti);
    let mut want: Vec<(usize, usize)> = Vec::new();
    for m in &ms.matches {
        if let (Some(MVal::Syn(o)), Some(MVal::Syn(i))) = (m.caps.get("outer"), m.caps.get("inner")) {
            want.push((*o, *i));
        }
    }
    want.sort();
    want.dedup();
    let no_globals = BTreeMap::new();
    let case = || case_json(&text, &source, &no_globals);
    let loaded = match exec::load(&text) {
        Loaded::Ok(f) => f,
        _ => {
            out.violation("C03:load-rejected", "chain-edge file rejected", case());
            return;
        }
    };
    let functions = stdlib();
    for lazy in [false, true] {
        let mode = if lazy { "lazy" } else { "strict" };
        let rep = exec::execute(&loaded, &tree, &source, &ti, &no_globals, &functions, &ExecOpts::new(lazy));
        out.eval();
        match &rep.real {
            Real::Graph(g) => {
                let self_of = |n: usize| -> Option<usize> {
                    match g.nodes.get(n).and_then(|x| x.attrs.get("self")) {
                        Some(MVal::Syn(i)) => Some(*i),
                        _ => None,
                    }
                };
                let mut got: Vec<(usize, usize)> = Vec::new();
                for (n, node) in g.nodes.iter().enumerate() {
                    for (sink, attrs) in &node.edges {
                        match (self_of(n), self_of(*sink)) {
                            (Some(o), Some(i)) => {
                                got.push((o, i));
                                if with_attr && attrs.get("inner_end") != Some(&MVal::Int(ti.nodes[i].end.1 as u32)) {
                                    out.violation(&format!("C03:block-runs-differ:{}", mode), &format!("the edge of the match (outer {:?}, inner {:?}) carries {:?}", ti.nodes[o].kind, ti.nodes[i].kind, attrs), case());
                                    return;
                                }
                            }
                            _ => {
                                out.violation(&format!("C03:block-runs-differ:{}", mode), "an edge between nodes that no match created", case());
                                return;
                            }
                        }
                    }
                }
                got.sort();
                if got != want {
                    let missing: Vec<String> = want.iter().filter(|w| !got.contains(w)).map(|(o, i)| format!("({} at {:?}..{:?} -> {} at {:?}..{:?})", ti.nodes[*o].kind, ti.nodes[*o].start, ti.nodes[*o].end, ti.nodes[*i].kind, ti.nodes[*i].start, ti.nodes[*i].end)).collect();
                    out.violation(&format!("C03:block-runs-differ:{}", mode), &format!("{} matches of the edge stanza, {} edges in the graph; matches whose edge is missing: {}", want.len(), got.len(), crate::util::trunc(&missing.join(", "), 500)), case());
                    return;
                }
            }
            Real::Error(e, _) => {
                out.violation(&format!("C03:probe-failed:{}", mode), &format!("chain-edge program failed: {}", crate::util::trunc(&e.display, 400)), case());
                return;
            }
            Real::Panic(p) => {
                out.violation(&format!("C03:panic:{}", mode), &format!("{}: {}", p.location, p.message), case());
                return;
            }
            Real::Unreadable(s) => {
                out.violation("C03:unreadable-graph", s, case());
                return;
            }
        }
    }
    out.feat("edges_between_captured_nodes_of_one_kind_and_start_position");
    out.feat_n("chain_edge_matches", want.len() as u64);
    out.nontrivial(mix(&[hash_str(&text), hash_str(&source)]));
}

fn probe_file(rng: &mut Rng) -> GFile {
    let n = rng.range(2, 8);
    let mut items = Vec::new();
    let mut used_names: Vec<&'static str> = Vec::new();
    for si in 0..n {
        if rng.chance(1, 7) {
            // a stanza with an empty block still takes part in matching
            items.push(Item::Stanza(GStanza { query: (*rng.pick(EMPTY_BLOCK_QUERIES)).into(), pool: None, stmts: vec![], loc: Loc::default() }));
            continue;
        }
        let mut pi = rng.below(POOL.len());
        // reuse a capture name of an earlier stanza with another quantifier or position
        if !used_names.is_empty() && rng.chance(2, 5) {
            let want = used_names[rng.below(used_names.len())];
            let cands: Vec<usize> = POOL.iter().enumerate().filter(|(_, q)| q.caps.iter().any(|c| c.name == want)).map(|(i, _)| i).collect();
            if !cands.is_empty() {
                pi = cands[rng.below(cands.len())];
            }
        }
        let shape = POOL[pi];
        for c in shape.caps {
            used_names.push(c.name);
        }
        let node = format!("n{}", si);
        let mut stmts = vec![stmt(StmtKind::Node(GVar::u(&node)))];
        let mut attrs = vec![GAttr { name: "stanza".into(), value: Some(GExpr::Int(si as u32)) }];
        for c in shape.caps {
            if c.name.starts_with('_') && rng.chance(1, 2) {
                continue;
            }
            let an = c.name.replace('-', "_");
            attrs.push(GAttr { name: format!("cap_{}", an), value: Some(GExpr::cap(c.name)) });
            if c.quant.is_empty() {
                attrs.push(GAttr { name: format!("txt_{}", an), value: Some(GExpr::call("source-text", vec![GExpr::cap(c.name)])) });
            }
        }
        // split into several attr statements sometimes, and use captures in nested blocks
        if attrs.len() > 2 && rng.chance(1, 3) {
            let tail = attrs.split_off(2);
            stmts.push(stmt(StmtKind::AttrNode(GExpr::var(&node), attrs)));
            stmts.push(stmt(StmtKind::If(vec![GIfArm { conds: vec![GCond { kind: CondKind::Bool, expr: GExpr::True, loc: Loc::default() }], stmts: vec![stmt(StmtKind::AttrNode(GExpr::var(&node), tail))], loc: Loc::default() }])));
        } else {
            stmts.push(stmt(StmtKind::AttrNode(GExpr::var(&node), attrs)));
        }
        items.push(Item::Stanza(GStanza { query: shape.text.into(), pool: Some(pi), stmts, loc: Loc::default() }));
    }
    GFile { items }
}

/// what a probe node must look like for a given match
fn expected_probe(si: usize, st: &GStanza, m: &MatchInfo, ti: &TreeInfo, source: &str) -> Attrs {
    let mut a = Attrs::new();
    a.insert("stanza".into(), MVal::Int(si as u32));
    // only the captures the body actually records
    let mut recorded: Vec<String> = Vec::new();
    fn collect(stmts: &[GStmt], out: &mut Vec<String>) {
        for s in stmts {
            match &s.kind {
                StmtKind::AttrNode(_, attrs) => {
                    for at in attrs {
                        out.push(at.name.clone());
                    }
                }
                StmtKind::If(arms) => {
                    for arm in arms {
                        collect(&arm.stmts, out);
                    }
                }
                _ => {}
            }
        }
    }
    collect(&st.stmts, &mut recorded);
    for (name, v) in &m.caps {
        let an = name.replace('-', "_");
        if recorded.contains(&format!("cap_{}", an)) {
            a.insert(format!("cap_{}", an), v.clone());
        }
        if recorded.contains(&format!("txt_{}", an)) {
            if let MVal::Syn(i) = v {
                a.insert(format!("txt_{}", an), MVal::Str(ti.text(*i, source).to_string()));
            }
        }
    }
    a
}

fn quant_name(q: CaptureQuantifier) -> &'static str {
    match q {
        CaptureQuantifier::Zero => "zero",
        CaptureQuantifier::One => "",
        CaptureQuantifier::ZeroOrOne => "?",
        CaptureQuantifier::ZeroOrMore => "*",
        CaptureQuantifier::OneOrMore => "+",
    }
}

type Report = (Option<usize>, BTreeMap<String, (String, Vec<usize>)>);

impl Prop for C03 {
    fn id(&self) -> &'static str {
        "C03"
    }
    fn cases(&self, cfg: &RunCfg) -> usize {
        match cfg.tier {
            Tier::Quick => 900,
            Tier::Thorough => 40_000,
        }
    }
    fn run_case(&self, _cfg: &RunCfg, idx: usize, rng: &mut Rng, out: &mut Out) {
        if idx % 12 == 7 {
            nested_chain_edges(rng, out);
            return;
        }
        let mut file = probe_file(rng);
        file.number();
        let wild = rng.chance(1, 4);
        let text = if wild { print_wild(&mut file, rng).0 } else { print_house(&mut file) };
        // now and then a parent with hundreds of children and a pattern with two non-adjacent
        // sibling steps: thousands of simultaneous in-progress matches
        let big = rng.chance(1, 40);
        if big {
            let pair = POOL.iter().position(|q| q.text.starts_with("(module (expression_statement) @stmt_a")).unwrap_or(0);
            let shape = POOL[pair];
            let stmts = vec![
                stmt(StmtKind::Node(GVar::u("pair"))),
                stmt(StmtKind::AttrNode(GExpr::var("pair"), vec![GAttr { name: "stanza".into(), value: Some(GExpr::Int(0)) }, GAttr { name: "cap_stmt_a".into(), value: Some(GExpr::cap("stmt_a")) }, GAttr { name: "cap_stmt_b".into(), value: Some(GExpr::cap("stmt_b")) }])),
            ];
            file = GFile { items: vec![Item::Stanza(GStanza { query: shape.text.into(), pool: Some(pair), stmts, loc: Loc::default() })] };
            file.number();
        }
        let text = if big { print_house(&mut file) } else { text };
        let source = if big {
            let n = rng.range(120, 230);
            (0..n).map(|i| format!("v{}\n", i)).collect::<String>()
        } else if rng.chance(1, 25) {
            py::deep_source(rng)
        } else {
            py::gen_any_source(rng, 10, 25)
        };
        if big {
            out.feat("parent_with_hundreds_of_children");
        }
        let tree = parse_python(&source);
        let ti = TreeInfo::new(&tree);
        if ti.nodes.iter().any(|n| n.depth > 256) {
            out.feat("tree_deeper_than_256_levels");
        }
        if ti.anomaly.is_some() {
            out.inconclusive("tree-sitter anomaly");
            return;
        }
        let prep = match prepare(&file, &tree, &source, &ti) {
            Ok(p) => p,
            Err(e) => {
                out.inconclusive(&format!("oracle could not compile a pool query: {}", e));
                return;
            }
        };
        if prep.rootless > 0 || prep.shape_anomalies > 0 {
            out.inconclusive("match without root node / capture shape anomaly");
            return;
        }
        let no_globals = BTreeMap::new();
        let case = || case_json(&text, &source, &no_globals);
        let loaded = match exec::load(&text) {
            Loaded::Ok(f) => f,
            Loaded::Err(e) => {
                out.violation("C03:load-rejected", &format!("probe file rejected: {}", e), case());
                return;
            }
            Loaded::Panic(p) => {
                out.violation("C03:load-panic", &format!("{}: {}", p.location, p.message), case());
                return;
            }
        };
        let stanzas = file.stanzas();
        // expected multiset of probe nodes
        let mut want: Vec<Attrs> = Vec::new();
        for (si, st) in stanzas.iter().enumerate() {
            if st.stmts.is_empty() {
                continue;
            }
            for m in &prep.matches[si] {
                want.push(expected_probe(si, st, m, &ti, &source));
            }
        }
        want.sort();
        let functions = stdlib();
        for lazy in [false, true] {
            let mode = if lazy { "lazy" } else { "strict" };
            let rep = exec::execute(&loaded, &tree, &source, &ti, &no_globals, &functions, &ExecOpts::new(lazy));
            out.eval();
            match &rep.real {
                Real::Graph(g) => {
                    let mut got: Vec<Attrs> = g.nodes.iter().map(|n| n.attrs.clone()).collect();
                    got.sort();
                    if got != want {
                        // find a witness
                        let mut msg = format!("{} block runs observed, {} matches enumerated by tree-sitter", got.len(), want.len());
                        for w in &want {
                            let cw = want.iter().filter(|x| *x == w).count();
                            let cg = got.iter().filter(|x| *x == w).count();
                            if cw != cg {
                                msg = format!("{}; e.g. a match with bindings {:?} ran {} times instead of {}", msg, w, cg, cw);
                                break;
                            }
                        }
                        for gg in &got {
                            if !want.contains(gg) {
                                msg = format!("{}; a block ran with bindings {:?} that no match has", msg, gg);
                                break;
                            }
                        }
                        out.violation(&format!("C03:block-runs-differ:{}", mode), &crate::util::trunc(&msg, 900), case());
                        return;
                    }
                }
                Real::Error(e, _) => {
                    out.violation(&format!("C03:probe-failed:{}", mode), &format!("probe program failed: {}", crate::util::trunc(&e.display, 400)), case());
                    return;
                }
                Real::Panic(p) => {
                    out.violation(&format!("C03:panic:{}", mode), &format!("{}: {}", p.location, p.message), case());
                    return;
                }
                Real::Unreadable(s) => {
                    out.violation("C03:unreadable-graph", s, case());
                    return;
                }
            }
        }
        // public match visitors
        let loc_to_stanza: BTreeMap<(usize, usize), usize> = stanzas.iter().enumerate().map(|(i, s)| ((s.loc.row, s.loc.col), i)).collect();
        let mut want_reports: Vec<Vec<Report>> = Vec::new();
        for (si, _) in stanzas.iter().enumerate() {
            let mut v: Vec<Report> = Vec::new();
            for m in &prep.matches[si] {
                let mut caps = BTreeMap::new();
                for (name, q, _) in &prep.queries[si].captures {
                    caps.insert(name.clone(), (q.suffix().to_string(), m.raw.get(name).cloned().unwrap_or_default()));
                }
                v.push((m.root, caps));
            }
            v.sort();
            want_reports.push(v);
        }
        for which in ["file-strict", "file-lazy", "stanza"] {
            let visited = catch(|| {
                let mut got: Vec<Vec<Report>> = vec![Vec::new(); stanzas.len()];
                let mut bad: Option<String> = None;
                let mut visit = |m: tree_sitter_graph::Match| -> Result<(), String> {
                    let loc = m.query_location();
                    let si = match loc_to_stanza.get(&(loc.row, loc.column)) {
                        Some(i) => *i,
                        None => {
                            bad = Some(format!("visitor reported a match for a stanza at ({}, {}) where none starts", loc.row, loc.column));
                            return Ok(());
                        }
                    };
                    let root = ti.index_of(&m.full_capture());
                    let mut caps = BTreeMap::new();
                    let names: Vec<String> = m.capture_names().map(|s| s.to_string()).collect();
                    for (name, q, nodes) in m.named_captures() {
                        let ns: Vec<usize> = nodes.filter_map(|n| ti.index_of(&n)).collect();
                        caps.insert(name.to_string(), (quant_name(q).to_string(), ns));
                    }
                    for n in &names {
                        if !caps.contains_key(n) {
                            bad = Some(format!("capture_names lists {} but named_captures does not", n));
                        }
                        match m.named_capture(n) {
                            Some((q, nodes)) => {
                                let ns: Vec<usize> = nodes.filter_map(|x| ti.index_of(&x)).collect();
                                if caps.get(n) != Some(&(quant_name(q).to_string(), ns)) {
                                    bad = Some(format!("named_capture({}) disagrees with named_captures", n));
                                }
                            }
                            None => bad = Some(format!("named_capture({}) is None", n)),
                        }
                    }
                    got[si].push((root, caps));
                    Ok(())
                };
                let r: Result<(), String> = match which {
                    "file-strict" => loaded.try_visit_matches(&tree, &source, false, &mut visit),
                    "file-lazy" => loaded.try_visit_matches(&tree, &source, true, &mut visit),
                    _ => {
                        let mut r = Ok(());
                        for st in &loaded.stanzas {
                            r = st.try_visit_matches(&tree, &source, &mut visit);
                            if r.is_err() {
                                break;
                            }
                        }
                        r
                    }
                };
                (got, bad, r)
            });
            out.eval();
            match visited {
                Err(p) => {
                    out.violation(&format!("C03:visitor-panic:{}", which), &format!("{}: {}", p.location, p.message), case());
                    return;
                }
                Ok((mut got, bad, r)) => {
                    if let Some(b) = bad {
                        out.violation(&format!("C03:visitor-inconsistent:{}", which), &b, case());
                        return;
                    }
                    if let Err(e) = r {
                        out.violation(&format!("C03:visitor-error:{}", which), &e, case());
                        return;
                    }
                    for (si, g) in got.iter_mut().enumerate() {
                        g.sort();
                        if *g != want_reports[si] {
                            let msg = format!("stanza {} ({}): visitor reported {} matches {:?}, tree-sitter enumerates {} {:?}", si, stanzas[si].query.replace('\n', " "), g.len(), g.iter().take(3).collect::<Vec<_>>(), want_reports[si].len(), want_reports[si].iter().take(3).collect::<Vec<_>>());
                            out.violation(&format!("C03:visitor-differs:{}", which), &crate::util::trunc(&msg, 1000), case());
                            return;
                        }
                    }
                }
            }
        }
        // evidence
        out.feat_n("stanzas", stanzas.len() as u64);
        out.feat_n("matches", prep.total_matches as u64);
        let mut names: BTreeMap<&str, Vec<&str>> = BTreeMap::new();
        for st in &stanzas {
            if st.stmts.is_empty() {
                out.feat("empty_block_stanza");
            }
            if let Some(pi) = st.pool {
                for c in POOL[pi].caps {
                    names.entry(c.name).or_default().push(c.quant);
                    out.feat(&format!("capture_quantifier:{}", if c.quant.is_empty() { "one" } else { c.quant }));
                    let _ = quant_of(c.quant);
                }
            }
        }
        if names.values().any(|qs| qs.len() > 1) {
            out.feat("capture_name_shared_between_stanzas");
        }
        if names.values().any(|qs| qs.iter().any(|q| *q != qs[0])) {
            out.feat("shared_name_with_different_quantifiers");
        }
        for (si, ms) in prep.matches.iter().enumerate() {
            for m in ms {
                for (_, v) in &m.caps {
                    match v {
                        MVal::Null => out.feat("optional_capture_absent"),
                        MVal::List(xs) if xs.is_empty() => out.feat("list_capture_empty"),
                        MVal::List(xs) if xs.len() >= 2 => out.feat("list_capture_several_nodes"),
                        _ => {}
                    }
                }
            }
            let _ = si;
        }
        if ti.has_error() {
            out.feat("tree_with_errors");
        }
        if wild {
            out.feat("layout:wild");
        }
        if prep.total_matches >= 2 {
            out.nontrivial(mix(&[hash_str(&text), hash_str(&source)]));
        }
        if out.want_sample() && prep.total_matches >= 3 && text.len() < 1500 {
            let mut c = case();
            c["matches_per_stanza"] = json!(prep.matches.iter().map(|m| m.len()).collect::<Vec<_>>());
            out.sample(c);
        }
    }
}
