#!/bin/bash
# process_round.sh <worker> <wtroot> <i,j> <ID>: import one agent's two changes, confirm them in a scratch
# worktree, run the quick checks against them in an isolated copy, then remove the agent's worktree.
# Jobs of one worker are serialised with flock; use several workers for parallelism.
W=$1; ROOT=$2; IDX=$3; ID=$4
exec 9>/tmp/proc_$W.lock; flock 9
cd /verif
python3 bin/import_round.py $ROOT $IDX $ID
DIRS=""; NAMES=""
for i in ${IDX//,/ }; do [ -d seeded/$ID-m$i ] && DIRS="$DIRS /verif/seeded/$ID-m$i" && NAMES="$NAMES $ID-m$i"; done
CM_WT=/tmp/cm_$W/wt python3 bin/confirm_mutants.py $DIRS
MUT_DIR=/tmp/mut_$W python3 bin/run_mutants.py $NAMES
git -C /repo worktree remove --force $ROOT/$ID
echo "done $ID"
