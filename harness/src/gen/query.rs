//! Pool of query shapes for the Python grammar with metadata used by the generators.

/// What kind of nodes a capture can bind (None = anything)
#[derive(Clone, Copy, Debug)]
pub struct CapMeta {
    pub name: &'static str,
    /// "" plain, "?" optional, "*" / "+" lists
    pub quant: &'static str,
    /// possible kinds of the captured node, empty = unknown
    pub kinds: &'static [&'static str],
}

#[derive(Clone, Copy, Debug)]
pub struct QueryShape {
    pub text: &'static str,
    pub caps: &'static [CapMeta],
    /// kinds of the full-match node, empty = unknown
    pub root_kinds: &'static [&'static str],
    /// matches every node of its root kind (no predicates, fields or structure restrict it)
    pub total: bool,
    /// safe for execution: every match has a root node and at most two captures per node
    pub exec_safe: bool,
}

const fn c(name: &'static str, quant: &'static str, kinds: &'static [&'static str]) -> CapMeta {
    CapMeta { name, quant, kinds }
}

pub const POOL: &[QueryShape] = &[
    QueryShape { text: "(identifier) @id", caps: &[c("id", "", &["identifier"])], root_kinds: &["identifier"], total: true, exec_safe: true },
    QueryShape { text: "(module) @mod", caps: &[c("mod", "", &["module"])], root_kinds: &["module"], total: true, exec_safe: true },
    QueryShape { text: "(call function: (identifier) @fn arguments: (argument_list) @args)", caps: &[c("fn", "", &["identifier"]), c("args", "", &["argument_list"])], root_kinds: &["call"], total: false, exec_safe: true },
    QueryShape { text: "(assignment left: (_) @lhs right: (_)? @rhs)", caps: &[c("lhs", "", &[]), c("rhs", "?", &[])], root_kinds: &["assignment"], total: false, exec_safe: true },
    QueryShape { text: "(function_definition name: (identifier) @name parameters: (parameters (identifier)* @params))", caps: &[c("name", "", &["identifier"]), c("params", "*", &["identifier"])], root_kinds: &["function_definition"], total: false, exec_safe: true },
    QueryShape { text: "(argument_list (_)* @args)", caps: &[c("args", "*", &[])], root_kinds: &["argument_list"], total: false, exec_safe: true },
    QueryShape { text: "(attribute object: (_) @obj attribute: (identifier) @attr)", caps: &[c("obj", "", &[]), c("attr", "", &["identifier"])], root_kinds: &["attribute"], total: true, exec_safe: true },
    QueryShape { text: "[(integer) (string)] @lit", caps: &[c("lit", "", &["integer", "string"])], root_kinds: &["integer", "string"], total: true, exec_safe: true },
    QueryShape { text: "(binary_operator left: (_) @l right: (_) @r)", caps: &[c("l", "", &[]), c("r", "", &[])], root_kinds: &["binary_operator"], total: true, exec_safe: true },
    QueryShape { text: "(import_from_statement module_name: (dotted_name) @modname name: (dotted_name)+ @names)", caps: &[c("modname", "", &["dotted_name"]), c("names", "+", &["dotted_name"])], root_kinds: &["import_from_statement"], total: false, exec_safe: true },
    QueryShape { text: "(expression_statement (_) @e)", caps: &[c("e", "", &[])], root_kinds: &["expression_statement"], total: false, exec_safe: true },
    QueryShape { text: "((identifier) @id (#eq? @id \"x\"))", caps: &[c("id", "", &["identifier"])], root_kinds: &["identifier"], total: false, exec_safe: true },
    QueryShape { text: "((identifier) @id (#match? @id \"^[a-m]\"))", caps: &[c("id", "", &["identifier"])], root_kinds: &["identifier"], total: false, exec_safe: true },
    QueryShape { text: "(block . (_) @first)", caps: &[c("first", "", &[])], root_kinds: &["block"], total: true, exec_safe: true },
    QueryShape { text: "(block (_) @last .)", caps: &[c("last", "", &[])], root_kinds: &["block"], total: true, exec_safe: true },
    QueryShape { text: "(class_definition name: (identifier) @name superclasses: (argument_list)? @supers body: (block) @body)", caps: &[c("name", "", &["identifier"]), c("supers", "?", &["argument_list"]), c("body", "", &["block"])], root_kinds: &["class_definition"], total: true, exec_safe: true },
    QueryShape { text: "(if_statement condition: (_) @cond alternative: (_)? @alt)", caps: &[c("cond", "", &[]), c("alt", "?", &[])], root_kinds: &["if_statement"], total: false, exec_safe: true },
    QueryShape { text: "(module (_)* @stmts)", caps: &[c("stmts", "*", &[])], root_kinds: &["module"], total: false, exec_safe: true },
    QueryShape { text: "(return_statement (_)? @v) @ret", caps: &[c("v", "?", &[]), c("ret", "", &["return_statement"])], root_kinds: &["return_statement"], total: false, exec_safe: true },
    QueryShape { text: "(list (_)+ @elems)", caps: &[c("elems", "+", &[])], root_kinds: &["list"], total: false, exec_safe: true },
    QueryShape { text: "(call function: (attribute object: (_) @o attribute: (identifier) @m))", caps: &[c("o", "", &[]), c("m", "", &["identifier"])], root_kinds: &["call"], total: false, exec_safe: true },
    QueryShape { text: "(for_statement left: (_) @var right: (_) @iter body: (block) @body)", caps: &[c("var", "", &[]), c("iter", "", &[]), c("body", "", &["block"])], root_kinds: &["for_statement"], total: true, exec_safe: true },
    QueryShape { text: "(identifier) @_unused", caps: &[c("_unused", "", &["identifier"])], root_kinds: &["identifier"], total: true, exec_safe: true },
    QueryShape { text: "(ERROR) @err", caps: &[c("err", "", &["ERROR"])], root_kinds: &["ERROR"], total: true, exec_safe: true },
    QueryShape { text: "(dotted_name . (identifier) @first (identifier)* @rest)", caps: &[c("first", "", &["identifier"]), c("rest", "*", &["identifier"])], root_kinds: &["dotted_name"], total: false, exec_safe: true },
    QueryShape { text: "(function_definition !return_type name: (_) @n)", caps: &[c("n", "", &["identifier"])], root_kinds: &["function_definition"], total: false, exec_safe: true },
    QueryShape { text: "(function_definition) @def", caps: &[c("def", "", &["function_definition"])], root_kinds: &["function_definition"], total: true, exec_safe: true },
    QueryShape { text: "(call) @call", caps: &[c("call", "", &["call"])], root_kinds: &["call"], total: true, exec_safe: true },
    QueryShape { text: "(class_definition) @cls", caps: &[c("cls", "", &["class_definition"])], root_kinds: &["class_definition"], total: true, exec_safe: true },
    QueryShape { text: "(assignment left: (identifier) @target)", caps: &[c("target", "", &["identifier"])], root_kinds: &["assignment"], total: false, exec_safe: true },
    QueryShape { text: "(assignment\n  ; the right-hand side\n  right: (_) @value\n)", caps: &[c("value", "", &[])], root_kinds: &["assignment"], total: false, exec_safe: true },
    QueryShape { text: "((string) @s (#not-eq? @s \"\\\"{\\\"\"))", caps: &[c("s", "", &["string"])], root_kinds: &["string"], total: false, exec_safe: true },
    QueryShape { text: "((identifier) @id (#any-of? @id \"x\" \"y\" \"foo\"))", caps: &[c("id", "", &["identifier"])], root_kinds: &["identifier"], total: false, exec_safe: true },
    QueryShape { text: "(parameters (identifier) @p)", caps: &[c("p", "", &["identifier"])], root_kinds: &["parameters"], total: false, exec_safe: true },
    QueryShape { text: "(block) @blk", caps: &[c("blk", "", &["block"])], root_kinds: &["block"], total: true, exec_safe: true },
    QueryShape { text: "(expression_statement) @stmt", caps: &[c("stmt", "", &["expression_statement"])], root_kinds: &["expression_statement"], total: true, exec_safe: true },
    QueryShape { text: "(call arguments: (argument_list . (_) @first_arg))", caps: &[c("first_arg", "", &[])], root_kinds: &["call"], total: false, exec_safe: true },
    QueryShape { text: "(_ (identifier) @a . (identifier) @b)", caps: &[c("a", "", &["identifier"]), c("b", "", &["identifier"])], root_kinds: &[], total: false, exec_safe: true },
    QueryShape { text: "(dictionary (pair key: (_) @k value: (_) @v))", caps: &[c("k", "", &[]), c("v", "", &[])], root_kinds: &["dictionary"], total: false, exec_safe: true },
    QueryShape { text: "(while_statement condition: (_) @c)", caps: &[c("c", "", &[])], root_kinds: &["while_statement"], total: true, exec_safe: true },
    QueryShape { text: "(import_statement name: (dotted_name (identifier)+ @parts))", caps: &[c("parts", "+", &["identifier"])], root_kinds: &["import_statement"], total: false, exec_safe: true },
    QueryShape { text: "(string) @str", caps: &[c("str", "", &["string"])], root_kinds: &["string"], total: true, exec_safe: true },
    QueryShape { text: "(integer) @int", caps: &[c("int", "", &["integer"])], root_kinds: &["integer"], total: true, exec_safe: true },
    QueryShape { text: "(comparison_operator (_) @first_operand)", caps: &[c("first_operand", "", &[])], root_kinds: &["comparison_operator"], total: false, exec_safe: true },
    QueryShape { text: "(tuple (_)* @items) @tup", caps: &[c("items", "*", &[]), c("tup", "", &["tuple"])], root_kinds: &["tuple"], total: false, exec_safe: true },
    QueryShape { text: "(parameters (identifier)? @name)", caps: &[c("name", "?", &["identifier"])], root_kinds: &["parameters"], total: false, exec_safe: true },
    QueryShape { text: "(list (_)* @first)", caps: &[c("first", "*", &[])], root_kinds: &["list"], total: false, exec_safe: true },
    QueryShape { text: "(tuple (_)+ @id)", caps: &[c("id", "+", &[])], root_kinds: &["tuple"], total: false, exec_safe: true },
    QueryShape { text: "(return_statement (identifier)? @id)", caps: &[c("id", "?", &["identifier"])], root_kinds: &["return_statement"], total: false, exec_safe: true },
    QueryShape { text: "(call function: (identifier) @args)", caps: &[c("args", "", &["identifier"])], root_kinds: &["call"], total: false, exec_safe: true },
    QueryShape { text: "(class_definition body: (block (_)* @body))", caps: &[c("body", "*", &[])], root_kinds: &["class_definition"], total: false, exec_safe: true },
    QueryShape { text: "((string) @s (#not-eq? @s \"\\\\\"))", caps: &[c("s", "", &["string"])], root_kinds: &["string"], total: false, exec_safe: true },
    QueryShape { text: "(for_statement left: (_) @var right: (_)? @iter)", caps: &[c("var", "", &[]), c("iter", "?", &[])], root_kinds: &["for_statement"], total: true, exec_safe: true },
    QueryShape { text: "(binary_operator operator: \"+\" @op) @bin", caps: &[c("op", "", &[]), c("bin", "", &["binary_operator"])], root_kinds: &["binary_operator"], total: false, exec_safe: true },
    QueryShape { text: "(module (expression_statement) @_first (expression_statement) @second)", caps: &[c("_first", "", &["expression_statement"]), c("second", "", &["expression_statement"])], root_kinds: &["module"], total: false, exec_safe: true },
    QueryShape { text: "((call function: (identifier) @_fn arguments: (argument_list) @args) (#eq? @_fn \"print\"))", caps: &[c("_fn", "", &["identifier"]), c("args", "", &["argument_list"])], root_kinds: &["call"], total: false, exec_safe: true },
    QueryShape { text: "((call function: (identifier) @_callee) @call (#not-eq? @_callee \"f\"))", caps: &[c("_callee", "", &["identifier"]), c("call", "", &["call"])], root_kinds: &["call"], total: false, exec_safe: true },
    QueryShape { text: "(binary_operator left: (_) @parts right: (_) @parts) @parts", caps: &[c("parts", "+", &[])], root_kinds: &["binary_operator"], total: true, exec_safe: true },
    QueryShape { text: "(attribute object: (_) @chain) @chain", caps: &[c("chain", "+", &[])], root_kinds: &["attribute"], total: true, exec_safe: true },
    // patterns that do not begin with a bracket: a bare wildcard, an anonymous token, a field name
    QueryShape { text: "_ @any_node", caps: &[c("any_node", "", &[])], root_kinds: &[], total: false, exec_safe: true },
    QueryShape { text: "\"=\" @eq_sign", caps: &[c("eq_sign", "", &["="])], root_kinds: &["="], total: false, exec_safe: true },
    QueryShape { text: "left: (identifier) @lhs_id", caps: &[c("lhs_id", "", &["identifier"])], root_kinds: &["identifier"], total: false, exec_safe: true },
    QueryShape { text: "(module (expression_statement) @stmt_a (expression_statement) @stmt_b)", caps: &[c("stmt_a", "", &["expression_statement"]), c("stmt_b", "", &["expression_statement"])], root_kinds: &["module"], total: false, exec_safe: true },
    // a predicate string with a run of blanks
    QueryShape { text: "((string) @spaced (#match? @spaced \"  \"))", caps: &[c("spaced", "", &["string"])], root_kinds: &["string"], total: false, exec_safe: true },
];

pub fn quant_of(s: &str) -> crate::gen::ast::Quant {
    use crate::gen::ast::Quant;
    match s {
        "?" => Quant::Opt,
        "*" => Quant::Star,
        "+" => Quant::Plus,
        _ => Quant::One,
    }
}
