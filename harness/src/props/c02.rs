//! C02 – strict and lazy evaluation agree on every order-insensitive program (differential).

use super::common::*;
use crate::gen::dsl::GenCfg;
use crate::model::interp::Outcome;
use crate::oracle::exec::{self, ExecOpts, Loaded, Real};
use crate::oracle::iso::{isomorphic, Iso};
use crate::oracle::tree::{parse_python, TreeInfo};
use crate::util::{Out, Rng};
use crate::{Prop, RunCfg, Tier};
use serde_json::json;

pub struct C02;

/// strict failures whose root cause does not depend on evaluation order
pub const ORDER_INDEPENDENT: &[&str] = &[
    "ExpectedGraphNode",
    "ExpectedList",
    "ExpectedBoolean",
    "ExpectedInteger",
    "ExpectedString",
    "ExpectedSyntaxNode",
    "InvalidVariableScope",
    "DuplicateAttribute",
    "DuplicateVariable",
    "FunctionFailed",
    "UndefinedFunction",
    "InvalidParameters",
    "UndefinedRegexCapture",
    "EmptyRegexCapture",
];

impl Prop for C02 {
    fn id(&self) -> &'static str {
        "C02"
    }
    fn cases(&self, cfg: &RunCfg) -> usize {
        match cfg.tier {
            Tier::Quick => 1200,
            Tier::Thorough => 50000,
        }
    }
    fn run_case(&self, cfg: &RunCfg, idx: usize, rng: &mut Rng, out: &mut Out) {
        if idx % 8 == 7 {
            for _ in 0..12 {
                scan_differential(rng, out);
            }
            return;
        }
        if idx % 8 == 3 {
            for _ in 0..6 {
                text_differential(rng, out);
            }
            return;
        }
        let mut gcfg = GenCfg::order_insensitive();
        if cfg.tier == Tier::Thorough {
            gcfg.max_stanzas = 8;
            if gcfg.deepen(rng) {
                out.feat("deep_bounds(depth<=6,stanzas<=12)");
            }
        }
        // out-of-range `$n` is part of the property ("invalid regex capture")
        gcfg.fault_pct = 15;
        let mut case = build_case(rng, &gcfg, 20, 15, 12);
        if rng.chance(1, 12) {
            // `$n` beyond the groups of the arm / outside any scan
            if add_bad_regex_capture(rng, &mut case) {
                out.feat("fault:bad_regex_capture");
            }
        }
        if rng.chance(1, 14) {
            // a clause that cannot be evaluated behind a false one: both modes evaluate every
            // clause of an arm they reach, so both must fail
            if add_failing_later_condition(rng, &mut case) {
                out.feat("fault:failing_condition_after_false_one");
            }
        }
        let tree = parse_python(&case.source);
        let ti = TreeInfo::new(&tree);
        if let Some(a) = &ti.anomaly {
            out.inconclusive(&format!("tree-sitter anomaly: {}", a));
            return;
        }
        let prep = match prepare(&case.prog.file, &tree, &case.source, &ti) {
            Ok(p) => p,
            Err(e) => {
                out.inconclusive(&format!("oracle could not compile a pool query: {}", e));
                return;
            }
        };
        if prep.rootless > 0 || prep.shape_anomalies > 0 {
            out.inconclusive("match without root node / capture shape anomaly");
            return;
        }
        let file = match exec::load(&case.text) {
            Loaded::Ok(f) => f,
            Loaded::Err(_) => {
                out.feat("load_rejected");
                return;
            }
            Loaded::Panic(p) => {
                out.violation(
                    &format!("C02:load-panic:{}", p.site_file()),
                    &format!("loading panicked at {}: {}", p.location, p.message),
                    case_json(&case.text, &case.source, &case.prog.globals),
                );
                return;
            }
        };
        let functions = stdlib();
        let strict = exec::execute(&file, &tree, &case.source, &ti, &case.prog.globals, &functions, &ExecOpts::new(false));
        let lazy = exec::execute(&file, &tree, &case.source, &ti, &case.prog.globals, &functions, &ExecOpts::new(true));
        out.evals(2);
        let mut cj = case_json(&case.text, &case.source, &case.prog.globals);
        cj["strict"] = json!(strict.real.brief());
        cj["lazy"] = json!(lazy.real.brief());
        if strict.poll_limit_hit || lazy.poll_limit_hit {
            out.violation("C02:no-termination", "execution exceeded the poll budget", cj);
            return;
        }
        match (&strict.real, &lazy.real) {
            (Real::Panic(p), _) => {
                out.violation(&format!("C02:strict-panic:{}", p.site_file()), &format!("strict mode panicked at {}: {}", p.location, p.message), cj);
                return;
            }
            (_, Real::Panic(p)) => {
                out.violation(&format!("C02:lazy-panic:{}", p.site_file()), &format!("lazy mode panicked at {}: {} (strict: {})", p.location, p.message, strict.real.brief().chars().take(120).collect::<String>()), cj);
                return;
            }
            (Real::Unreadable(s), _) | (_, Real::Unreadable(s)) => {
                out.violation("C02:unreadable-graph", s, cj);
                return;
            }
            (Real::Graph(a), Real::Graph(b)) => match isomorphic(a, b, 200_000) {
                Iso::Same => out.feat("agree:graph"),
                Iso::Different(why) => {
                    out.violation("C02:graphs-differ", &format!("strict and lazy graphs are not isomorphic: {}", why), cj);
                    return;
                }
                Iso::Unknown => {
                    out.inconclusive("isomorphism budget exhausted");
                    return;
                }
            },
            (Real::Graph(_), Real::Error(e, _)) => {
                out.violation(&format!("C02:lazy-fails:{}", e.root), &format!("strict succeeds, lazy fails: {}", crate::util::trunc(&e.display, 400)), cj);
                return;
            }
            (Real::Error(e, _), Real::Graph(_)) => {
                if ORDER_INDEPENDENT.contains(&e.root.as_str()) {
                    out.violation(&format!("C02:lazy-succeeds:{}", e.root), &format!("strict fails for an order-independent reason, lazy succeeds: {}", crate::util::trunc(&e.display, 400)), cj);
                    return;
                }
                out.feat(&format!("strict_only_error:{}", e.root));
            }
            (Real::Error(e, _), Real::Error(l, _)) => {
                out.feat("agree:error");
                out.feat(&format!("strict_error:{}", e.root));
                out.feat(&format!("lazy_error:{}", l.root));
            }
        }
        for f in &case.prog.features {
            out.feat(&format!("gen:{}", f));
        }
        if let Some(f) = &case.prog.fault {
            out.feat(&format!("fault:{}", f));
        }
        if ti.has_error() {
            out.feat("tree_with_errors");
        }
        // model counters only serve as evidence of what the programs did
        if let Ok((model, counters)) = run_model(&case.prog.file, &ti, &case.source, &case.prog.globals, &prep.matches, None) {
            counters_features(out, &counters);
            if counters.statements >= 3 && counters.matches >= 1 {
                out.nontrivial(case_hash(&case.text, &case.source, &case.prog.globals));
            }
            if let (Outcome::Graph(mg), Real::Graph(lg)) = (&model, &lazy.real) {
                // lazy vs reference model as well (order-insensitive fragment)
                match isomorphic(mg, lg, 200_000) {
                    Iso::Different(why) => {
                        out.violation("C02:lazy-differs-from-model", &format!("lazy graph differs from the reference model: {}", why), cj.clone());
                    }
                    _ => out.feat("lazy_matches_model"),
                }
            }
            if out.want_sample() && counters.statements >= 5 {
                out.sample(cj);
            }
        }
    }
}

fn add_bad_regex_capture(rng: &mut Rng, case: &mut ProgCase) -> bool {
    use crate::gen::ast::*;
    let nst = case.prog.file.stanzas().len();
    if nst == 0 {
        return false;
    }
    let si = rng.below(nst);
    let outside = rng.chance(1, 2);
    {
        let mut stanzas = case.prog.file.stanzas_mut();
        let st = &mut stanzas[si];
        let mk = |n: usize| -> Vec<GStmt> {
            vec![
                stmt(StmtKind::Node(GVar::u("rx_n"))),
                stmt(StmtKind::AttrNode(GExpr::var("rx_n"), vec![GAttr { name: "rx".into(), value: Some(GExpr::RegexCap(n)) }])),
            ]
        };
        if outside {
            for s in mk(rng.below(3)) {
                st.stmts.push(s);
            }
        } else {
            st.stmts.push(stmt(StmtKind::Scan(
                GExpr::str("ab12"),
                vec![GArm { regex: "([a-z])".into(), stmts: mk(2 + rng.below(3)), loc: Loc::default() }],
            )));
        }
    }
    case.prog.file.number();
    case.text = crate::gen::print::print_house(&mut case.prog.file);
    true
}

fn add_failing_later_condition(rng: &mut Rng, case: &mut ProgCase) -> bool {
    use crate::gen::ast::*;
    let nst = case.prog.file.stanzas().len();
    if nst == 0 {
        return false;
    }
    let si = rng.below(nst);
    let cond = |kind: CondKind, expr: GExpr| GCond { kind, expr, loc: Loc::default() };
    let falsy = |rng: &mut Rng| match rng.below(3) {
        0 => cond(CondKind::Bool, GExpr::False),
        1 => cond(CondKind::Bool, GExpr::call("eq", vec![GExpr::Int(1), GExpr::Int(2)])),
        _ => cond(CondKind::Some, GExpr::Null),
    };
    let bad = |rng: &mut Rng| match rng.below(4) {
        0 => cond(CondKind::Bool, GExpr::call("plus", vec![GExpr::Int(1), GExpr::Int(2)])),
        1 => cond(CondKind::Bool, GExpr::call("not", vec![GExpr::str("yes")])),
        2 => cond(CondKind::Bool, GExpr::str("text")),
        _ => cond(CondKind::Bool, GExpr::call("no-such-function", vec![])),
    };
    let body = || vec![stmt(StmtKind::Node(GVar::u("fc_n")))];
    let arms = if rng.chance(1, 2) {
        vec![GIfArm { conds: vec![falsy(rng), bad(rng)], stmts: body(), loc: Loc::default() }]
    } else {
        vec![
            GIfArm { conds: vec![falsy(rng)], stmts: body(), loc: Loc::default() },
            GIfArm { conds: vec![falsy(rng), falsy(rng), bad(rng)], stmts: body(), loc: Loc::default() },
            GIfArm { conds: vec![], stmts: body(), loc: Loc::default() },
        ]
    };
    {
        let mut stanzas = case.prog.file.stanzas_mut();
        let st = &mut stanzas[si];
        let pos = rng.below(st.stmts.len() + 1);
        st.stmts.insert(pos, stmt(StmtKind::If(arms)));
    }
    case.prog.file.number();
    case.text = crate::gen::print::print_house(&mut case.prog.file);
    true
}

/// Scan-only programs (regex language of C10, incl. anchors and word boundaries): whatever
/// reading of "restart after the matched text" an implementation takes, both modes must take the
/// same one.
fn scan_differential(rng: &mut Rng, out: &mut Out) {
    let (text, subject) = match super::c10::gen_scan_case(rng) {
        Some(x) => x,
        None => return,
    };
    let file = match exec::load(&text) {
        Loaded::Ok(f) => f,
        _ => {
            out.feat("scan:load_rejected");
            return;
        }
    };
    let source = "pass";
    let tree = parse_python(source);
    let ti = TreeInfo::new(&tree);
    let mut globals = std::collections::BTreeMap::new();
    globals.insert("subject".to_string(), crate::model::value::MVal::Str(subject.clone()));
    let functions = stdlib();
    let mut o = ExecOpts::new(false);
    o.poll_limit = 200_000;
    let strict = exec::execute(&file, &tree, source, &ti, &globals, &functions, &o);
    let mut o = ExecOpts::new(true);
    o.poll_limit = 200_000;
    let lazy = exec::execute(&file, &tree, source, &ti, &globals, &functions, &o);
    out.evals(2);
    let mut cj = json!({"dsl": text, "source": source, "globals": {"subject": subject}});
    cj["strict"] = json!(strict.real.brief());
    cj["lazy"] = json!(lazy.real.brief());
    if strict.poll_limit_hit || lazy.poll_limit_hit {
        out.violation("C02:no-termination", "scan exceeded the poll budget", cj);
        return;
    }
    match (&strict.real, &lazy.real) {
        (Real::Panic(p), _) | (_, Real::Panic(p)) => out.violation(&format!("C02:scan-panic:{}", p.site_file()), &format!("{}: {}", p.location, p.message), cj),
        (Real::Unreadable(s), _) | (_, Real::Unreadable(s)) => out.violation("C02:unreadable-graph", s, cj),
        (Real::Graph(a), Real::Graph(b)) => match isomorphic(a, b, 200_000) {
            Iso::Same => {
                out.feat("scan:agree:graph");
                if a.nodes.len() >= 2 {
                    out.nontrivial(crate::util::mix(&[crate::util::hash_str(&text), crate::util::hash_str(&subject)]));
                }
            }
            Iso::Different(why) => out.violation("C02:scan-graphs-differ", &format!("strict and lazy scans ran different arm sequences: {}", why), cj),
            Iso::Unknown => out.inconclusive("isomorphism budget exhausted"),
        },
        (Real::Error(..), Real::Error(..)) => out.feat("scan:agree:error"),
        (Real::Graph(_), Real::Error(e, _)) => out.violation(&format!("C02:lazy-fails:{}", e.root), &format!("strict scan succeeds, lazy fails: {}", crate::util::trunc(&e.display, 300)), cj),
        (Real::Error(e, _), Real::Graph(_)) => out.violation(&format!("C02:lazy-succeeds:{}", e.root), &format!("strict scan fails, lazy succeeds: {}", crate::util::trunc(&e.display, 300)), cj),
    }
}

/// Hand-shaped texts (the stanza families of C08 in both orders, the directed and seed texts of
/// C05): whenever such a file loads, both modes must agree on graph versus error – in particular
/// on the files the checker rejects today because a mutable variable reaches an eager position.
fn text_differential(rng: &mut Rng, out: &mut Out) {
    let (text, source, label): (String, String, String) = if rng.chance(1, 12) {
        // a parent with two dozen children and a pattern with three non-adjacent sibling steps:
        // hundreds of in-progress matches at a time, thousands of matches in all
        let n = rng.range(22, 30);
        let source: String = (0..n).map(|i| format!("v{}\n", i)).collect();
        let text = "(module (expression_statement) @s1 (expression_statement) @s2 (expression_statement) @s3) { node n attr (n) a = (source-text @s1), b = (source-text @s2), c = (source-text @s3) }".to_string();
        (text, source, "wide:three_sibling_steps".to_string())
    } else if rng.chance(1, 2) {
        let (mut st, name) = super::c08::family(rng);
        let mut own_source: Option<String> = None;
        if st[0].starts_with("__SOURCE__") {
            own_source = Some(st.remove(0)["__SOURCE__".len()..].to_string());
        }
        let mut header = String::new();
        if st[0].starts_with("__HEADER__") {
            header = st.remove(0)["__HEADER__".len()..].to_string();
        }
        if rng.chance(1, 2) {
            st.reverse();
        }
        (format!("{}{}", header, st.join("\n")), own_source.unwrap_or_else(|| "pass\nx = 1\n".to_string()), format!("family:{}", name))
    } else {
        let (name, t, s) = super::c05::differential_text(rng);
        (t, s, format!("directed:{}", name))
    };
    let file = match exec::load(&text) {
        Loaded::Ok(f) => f,
        _ => {
            out.eval();
            out.feat("text:load_rejected");
            return;
        }
    };
    let tree = parse_python(&source);
    let ti = TreeInfo::new(&tree);
    let mut globals = std::collections::BTreeMap::new();
    globals.insert("filename".to_string(), crate::model::value::MVal::str("src/pkg/__init__.py"));
    let functions = stdlib();
    let strict = exec::execute(&file, &tree, &source, &ti, &globals, &functions, &ExecOpts::new(false));
    let lazy = exec::execute(&file, &tree, &source, &ti, &globals, &functions, &ExecOpts::new(true));
    out.evals(2);
    let mut cj = json!({"dsl": text, "source": source, "kind": label});
    cj["strict"] = json!(strict.real.brief());
    cj["lazy"] = json!(lazy.real.brief());
    match (&strict.real, &lazy.real) {
        (Real::Panic(p), _) | (_, Real::Panic(p)) => out.violation(&format!("C02:text-panic:{}", p.site_file()), &format!("{}: {}", p.location, p.message), cj),
        (Real::Unreadable(s), _) | (_, Real::Unreadable(s)) => out.violation("C02:unreadable-graph", s, cj),
        (Real::Graph(a), Real::Graph(b)) => match isomorphic(a, b, 200_000) {
            Iso::Same => {
                out.feat("text:agree:graph");
                if label.starts_with("wide:") {
                    out.feat_n("text:agree:graph:wide_three_sibling_steps(matches)", a.nodes.len() as u64);
                }
                out.nontrivial(crate::util::mix(&[crate::util::hash_str(&text), crate::util::hash_str(&source)]));
            }
            Iso::Different(why) => out.violation("C02:graphs-differ", &format!("strict and lazy graphs are not isomorphic: {}", why), cj),
            Iso::Unknown => out.inconclusive("isomorphism budget exhausted"),
        },
        (Real::Error(..), Real::Error(..)) => {
            out.feat("text:agree:error");
            out.nontrivial(crate::util::mix(&[crate::util::hash_str(&text), crate::util::hash_str(&source)]));
        }
        (Real::Graph(_), Real::Error(e, _)) => out.violation(&format!("C02:lazy-fails:{}", e.root), &format!("strict succeeds, lazy fails: {}", crate::util::trunc(&e.display, 300)), cj),
        (Real::Error(e, _), Real::Graph(_)) => {
            if ORDER_INDEPENDENT.contains(&e.root.as_str()) || e.root == "UndefinedCapture" {
                out.violation(&format!("C02:lazy-succeeds:{}", e.root), &format!("strict fails for an order-independent reason, lazy succeeds: {}", crate::util::trunc(&e.display, 300)), cj);
            } else {
                out.feat(&format!("text:strict_only_error:{}", e.root));
            }
        }
    }
}
