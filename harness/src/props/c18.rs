//! C18 – syntax-error discovery returns exactly the outermost ERROR and MISSING nodes.
//! Oracle: the harness's own top-down walk (`Node::child(i)`, no cursor).  The owning bundles
//! are moved to another thread and back and every stored node is touched there; the same
//! workload is what runs under valgrind memcheck / ASan in the sanitizer passes.

use crate::gen::py;
use crate::oracle::tree::{parse_python, TreeInfo};
use crate::util::{catch, hash_str, Out, Rng};
use crate::{Prop, RunCfg, Tier};
use serde_json::json;
use std::path::Path;
use tree_sitter_graph::parse_error::{ParseError, TreeWithParseErrorVec};

pub struct C18;

#[derive(Clone, Debug, PartialEq, Eq)]
struct Found {
    missing: bool,
    start_byte: usize,
    end_byte: usize,
    kind: String,
    row: usize,
    col: usize,
}

fn describe(e: &ParseError) -> Found {
    let (missing, node) = match e {
        ParseError::Missing(n) => (true, n),
        ParseError::Unexpected(n) => (false, n),
    };
    Found {
        missing,
        start_byte: node.start_byte(),
        end_byte: node.end_byte(),
        kind: node.kind().to_string(),
        row: node.start_position().row,
        col: node.start_position().column,
    }
}

fn expected(ti: &TreeInfo) -> Vec<Found> {
    let mut out = Vec::new();
    // preorder with subtree skipping
    let mut stack = vec![0usize];
    while let Some(i) = stack.pop() {
        let n = &ti.nodes[i];
        if n.is_error || n.is_missing {
            out.push(Found {
                missing: !n.is_error,
                start_byte: n.start_byte,
                end_byte: n.end_byte,
                kind: n.kind.to_string(),
                row: n.start.0,
                col: n.start.1,
            });
            continue;
        }
        for c in n.children.iter().rev() {
            stack.push(*c);
        }
    }
    out
}

/// is `node` somewhere below `c` (by identity)?
fn contains(c: &tree_sitter::Node, node: &tree_sitter::Node) -> bool {
    let mut stack = vec![*c];
    let mut steps = 0;
    while let Some(n) = stack.pop() {
        steps += 1;
        if steps > 200_000 {
            return false;
        }
        if n.id() == node.id() {
            return true;
        }
        for i in 0..n.child_count() {
            if let Some(ch) = n.child(i) {
                if ch.start_byte() <= node.start_byte() && node.end_byte() <= ch.end_byte() {
                    stack.push(ch);
                }
            }
        }
    }
    false
}

fn check_displays(errors: &[ParseError], source: &str, out: &mut Out, case: &serde_json::Value) -> bool {
    let path = Path::new("dir/test.py");
    for e in errors {
        let f = describe(e);
        let plain = catch(|| format!("{}", e.display(path, source)));
        out.eval();
        match plain {
            Err(p) => {
                out.violation("C18:display-panic", &format!("plain display panicked at {}: {} (node {:?})", p.location, p.message, f), case.clone());
                return false;
            }
            Ok(text) => {
                let want = format!("dir/test.py:{}:{}: ", f.row + 1, f.col + 1);
                if !text.starts_with(&want) {
                    out.violation("C18:display-location", &format!("plain display {:?} does not start with {:?}", crate::util::trunc(&text, 120), want), case.clone());
                    return false;
                }
                let word = if f.missing { "missing syntax" } else { "unexpected syntax" };
                if !text[want.len()..].starts_with(word) {
                    out.violation("C18:display-kind", &format!("plain display {:?} does not say {:?}", crate::util::trunc(&text, 120), word), case.clone());
                    return false;
                }
                if f.end_byte > f.start_byte {
                    // the cited text is the first line of the node's own text
                    let first_line = source[f.start_byte..f.end_byte].split('\n').next().unwrap_or("");
                    if !text.ends_with(first_line) {
                        out.violation("C18:display-text", &format!("plain display {:?} does not cite the node text {:?}", crate::util::trunc(&text, 160), crate::util::trunc(first_line, 80)), case.clone());
                        return false;
                    }
                }
            }
        }
        let pretty = catch(|| format!("{}", e.display_pretty(path, source)));
        out.eval();
        match pretty {
            Err(p) => {
                out.violation("C18:display-pretty-panic", &format!("pretty display panicked at {}: {} (node {:?})", p.location, p.message, f), case.clone());
                return false;
            }
            Ok(text) => {
                let want = format!("dir/test.py:{}:{}:", f.row + 1, f.col + 1);
                if !text.contains(&want) {
                    out.violation(
                        if f.end_byte == f.start_byte { "C18:display-pretty-location-zero-width" } else { "C18:display-pretty-location" },
                        &format!("pretty display {:?} does not cite {:?}", crate::util::trunc(&text, 200), want),
                        case.clone(),
                    );
                    return false;
                }
                if f.end_byte == f.start_byte {
                    out.feat("display_zero_width_node");
                }
            }
        }
    }
    true
}

/// touch everything a stored error node offers (this is what the sanitizers watch)
fn touch(bundle: &TreeWithParseErrorVec, source: &str) -> Vec<Found> {
    let path = Path::new("dir/test.py");
    let mut v = Vec::new();
    for e in bundle.errors() {
        let n = e.node();
        let _ = n.kind();
        let _ = n.child_count();
        let _ = n.parent().map(|p| p.kind());
        let _ = n.to_sexp();
        let _ = format!("{}", e.display(path, source));
        let _ = format!("{}", e.display_pretty(path, source));
        v.push(describe(e));
    }
    let _ = bundle.tree().root_node().to_sexp();
    v
}

impl Prop for C18 {
    fn id(&self) -> &'static str {
        "C18"
    }
    fn directed(&self) -> usize {
        DIRECTED.len()
    }
    fn cases(&self, cfg: &RunCfg) -> usize {
        match cfg.tier {
            Tier::Quick => 2500,
            Tier::Thorough => 120_000,
        }
    }
    fn run_case(&self, _cfg: &RunCfg, idx: usize, rng: &mut Rng, out: &mut Out) {
        let source = if idx < DIRECTED.len() {
            DIRECTED[idx].to_string()
        } else if rng.chance(1, 30) {
            // faults far down: 60-250 levels of brackets around a faulty core, a fault in the
            // first operand of a long left-nested operator chain, or a deep source with faults
            out.feat("fault_below_many_levels");
            match rng.below(3) {
                0 => {
                    let d = rng.range(60, 250);
                    let (open, close) = *rng.pick(&[("(", ")"), ("[", "]"), ("f(", ")")]);
                    format!("x = {}1 $ 2{}\n", open.repeat(d), close.repeat(d))
                }
                1 => {
                    let n = rng.range(60, 250);
                    let mut s = String::from("total = [1 2]");
                    for i in 0..n {
                        s.push_str(&format!(" + v{}", i));
                    }
                    s.push('\n');
                    s
                }
                _ => {
                    let base = py::deep_source(rng);
                    let k = rng.range(1, 3);
                    py::inject_faults(rng, &base, k)
                }
            }
        } else {
            let base = py::gen_source(rng, 8);
            let faults = rng.below(7);
            let s = py::inject_faults(rng, &base, faults);
            // now and then indented with tabs, or with carriage-return line-feed line ends
            match rng.below(16) {
                0 => s.replace("    ", "\t"),
                1 if !s.contains('\r') => s.replace('\n', "\r\n"),
                _ => s,
            }
        };
        let tree = parse_python(&source);
        let ti = TreeInfo::new(&tree);
        if ti.anomaly.is_some() {
            out.inconclusive("tree-sitter anomaly");
            return;
        }
        let want = expected(&ti);
        let case = json!({"source": source, "expected": want.iter().map(|f| format!("{:?}", f)).collect::<Vec<_>>()});
        if !want.is_empty() && !tree.root_node().has_error() {
            out.inconclusive("tree-sitter: ERROR/MISSING node present but root.has_error() is false");
            return;
        }
        // all
        let all = match catch(|| ParseError::all(&tree)) {
            Ok(a) => a,
            Err(p) => {
                out.violation("C18:all-panic", &format!("{}: {}", p.location, p.message), case);
                return;
            }
        };
        out.eval();
        let got: Vec<Found> = all.iter().map(describe).collect();
        if got != want {
            out.violation("C18:all-differs", &format!("ParseError::all returned {:?}", got), case);
            return;
        }
        // first
        let first = match catch(|| ParseError::first(&tree).map(|e| describe(&e))) {
            Ok(f) => f,
            Err(p) => {
                out.violation("C18:first-panic", &format!("{}: {}", p.location, p.message), case);
                return;
            }
        };
        out.eval();
        if first.as_ref() != want.first() {
            out.violation("C18:first-differs", &format!("ParseError::first returned {:?}", first), case);
            return;
        }
        if !check_displays(&all, &source, out, &case) {
            return;
        }
        drop(all);
        // owning variants, moved to another thread and back
        let src2 = source.clone();
        let t2 = tree.clone();
        let moved = catch(move || {
            let bundle = ParseError::into_all(t2);
            let here = touch(&bundle, &src2);
            let h = std::thread::spawn(move || {
                let there = touch(&bundle, &src2);
                (bundle, there, src2)
            });
            let (bundle, there, src2) = h.join().expect("thread");
            let back = touch(&bundle, &src2);
            // drop the tree last / first
            let tree_back = bundle.into_tree();
            let again = ParseError::all(&tree_back).iter().map(describe).collect::<Vec<_>>();
            (here, there, back, again)
        });
        out.eval();
        match moved {
            Err(p) => {
                out.violation("C18:into_all-panic", &format!("{}: {}", p.location, p.message), case);
                return;
            }
            Ok((here, there, back, again)) => {
                if here != want || there != want || back != want || again != want {
                    out.violation("C18:into_all-differs", &format!("into_all answers: here {:?} / other thread {:?} / back {:?} / after into_tree {:?}", here, there, back, again), case);
                    return;
                }
            }
        }
        let t3 = tree.clone();
        let firsts = catch(move || {
            let b = ParseError::into_first(t3);
            let a = b.error().as_ref().map(describe);
            let h = std::thread::spawn(move || {
                let x = b.error().as_ref().map(describe);
                (b, x)
            });
            let (b, x) = h.join().expect("thread");
            let opt = b.into_option();
            let y = opt.as_ref().map(|t| describe(t.error()));
            let was_some = opt.is_some();
            // other trees come and go; the stored node must still belong to the bundle's tree:
            // its ancestors are the nodes a top-down walk of that tree passes through
            let decoys: Vec<tree_sitter::Tree> = (0..12).map(|k| parse_python(&format!("decoy{} = {}\n", k, "x + ".repeat(k + 1) + "1"))).collect();
            let chain_ok = opt.as_ref().map(|t| {
                let node = *t.error().node();
                let mut up: Vec<(usize, usize, u16)> = Vec::new();
                let mut cur = node.parent();
                while let Some(p) = cur {
                    up.push((p.start_byte(), p.end_byte(), p.kind_id()));
                    cur = p.parent();
                }
                // top-down: descend from the root to the node
                let mut down: Vec<(usize, usize, u16)> = Vec::new();
                let mut at = t.tree().root_node();
                let mut guard = 0;
                while at.id() != node.id() && guard < 10_000 {
                    guard += 1;
                    down.push((at.start_byte(), at.end_byte(), at.kind_id()));
                    let mut next = None;
                    for i in 0..at.child_count() {
                        if let Some(c) = at.child(i) {
                            let inside = c.start_byte() <= node.start_byte() && node.end_byte() <= c.end_byte();
                            if c.id() == node.id() || (inside && contains(&c, &node)) {
                                next = Some(c);
                                break;
                            }
                        }
                    }
                    match next {
                        Some(c) => at = c,
                        None => break,
                    }
                }
                down.reverse();
                up == down
            });
            drop(decoys);
            let z = opt.map(|t| {
                let _ = t.tree().root_node().kind();
                let tr = t.into_tree();
                ParseError::first(&tr).map(|e| describe(&e))
            });
            (a, x, y, was_some, z, chain_ok)
        });
        out.eval();
        match firsts {
            Err(p) => {
                out.violation("C18:into_first-panic", &format!("{}: {}", p.location, p.message), case);
                return;
            }
            Ok((a, x, y, was_some, z, chain_ok)) => {
                if chain_ok == Some(false) {
                    out.violation("C18:bundle-node-detached-from-its-tree", "after into_first(..).into_option() the ancestors of the stored node are not the nodes of the bundle's own tree", case);
                    return;
                }
                if chain_ok == Some(true) {
                    out.feat("bundle_node_ancestors_checked");
                }
                let w = want.first().cloned();
                if a != w || x != w || y != w || was_some != w.is_some() || (was_some && z != Some(w.clone())) {
                    out.violation("C18:into_first-differs", &format!("into_first answers {:?} {:?} {:?} {:?}", a, x, y, z), case);
                    return;
                }
            }
        }
        // the optional bundle itself: its tree is the tree it was given, also after a move
        let t4 = tree.clone();
        let want_sexp = tree.root_node().to_sexp();
        let opt_bundle = catch(move || {
            let b = ParseError::into_first(t4);
            let s1 = b.tree().root_node().to_sexp();
            let h = std::thread::spawn(move || {
                let s2 = b.tree().root_node().to_sexp();
                let e = b.error().as_ref().map(describe);
                (b, s2, e)
            });
            let (b, s2, e) = h.join().expect("thread");
            let tr = b.into_tree();
            let s3 = tr.root_node().to_sexp();
            let again = ParseError::first(&tr).map(|e| describe(&e));
            (s1, s2, s3, e, again)
        });
        out.eval();
        match opt_bundle {
            Err(p) => {
                out.violation("C18:into_first-panic", &format!("{}: {}", p.location, p.message), case);
                return;
            }
            Ok((s1, s2, s3, e, again)) => {
                let w = want.first().cloned();
                if s1 != want_sexp || s2 != want_sexp || s3 != want_sexp || e != w || again != w {
                    out.violation("C18:into_first-differs", &format!("the optional bundle's tree or error changed across a move: {:?} {:?}", e, again), case);
                    return;
                }
                out.feat("optional_bundle_tree_checked");
            }
        }
        // evidence
        out.feat(if want.is_empty() { "error_free_tree" } else { "tree_with_errors" });
        out.feat_n("errors_reported", want.len() as u64);
        if want.iter().any(|f| f.missing) {
            out.feat("missing_node");
        }
        if want.iter().any(|f| !f.missing) {
            out.feat("error_node");
        }
        if want.iter().any(|f| f.start_byte > 0) {
            out.feat("error_not_at_byte_0");
        }
        if want.iter().any(|f| f.row > 0) {
            out.feat("error_after_first_line");
        }
        if want.len() >= 2 {
            out.feat("several_errors");
        }
        // nested: an ERROR/MISSING node inside a reported node
        let nested = ti.nodes.iter().enumerate().any(|(i, n)| (n.is_error || n.is_missing) && ti.ancestors(i).iter().any(|a| ti.nodes[*a].is_error));
        if nested {
            out.feat("nested_error_skipped");
        }
        if !source.is_ascii() {
            out.feat("non_ascii_source");
        }
        if !want.is_empty() {
            out.nontrivial(hash_str(&source));
        }
        if out.want_sample() && want.len() >= 2 {
            out.sample(case);
        }
    }
}

const DIRECTED: &[&str] = &[
    "pass",
    "",
    "if : ",
    "x = (1,\n",
    "def f(:\n  pass\n",
    "a = 1\nb = = 2\nc = 3\n",
    "é = \"ü\"\nprint(é é)\n",
    "x = [1, 2\ny = 3\n",
    "class :\n  def (self):\n    return $\n",
    "foo(bar(baz(\n",
    ")\n",
    "x = 1\n  y = 2\n",
    "a b c d e f\n",
    "def f():\n    return (1 +\n\nprint(3)\n",
    "x = '''unterminated\nmore\n",
    "foo(1, 2\nbar()\n",
    "[1, (2, 3\nx = 4\n",
    "{a: [b, (c\n",
];
